//go:build verif

package replication

import (
	"bytes"
	"context"
	"io"
	"time"

	"github.com/jamf/regatta/internal/verif"
	"github.com/jamf/regatta/regattapb"
	"github.com/jamf/regatta/regattaserver"
	"github.com/jamf/regatta/storage"
	serrors "github.com/jamf/regatta/storage/errors"
	"github.com/jamf/regatta/storage/logreader"
	"github.com/jamf/regatta/storage/table"
	"github.com/jamf/regatta/storage/table/fsm"
	"github.com/lni/dragonboat/v4/client"
	"github.com/lni/dragonboat/v4/raftpb"
	sm "github.com/lni/dragonboat/v4/statemachine"
	"github.com/prometheus/client_golang/prometheus"
	"go.uber.org/zap"
	"google.golang.org/grpc"
)

// vhLeader is the leader cluster's table "t": the real state machine behind
// a totally ordered log (M2, written in Go so that it also runs natively),
// which also keeps the Raft log the replication server reads.
type vhLeader struct {
	f       *fsm.FSM
	log     *logreader.VHLog
	applied uint64
}

func (h *vhLeader) SyncRead(ctx context.Context, id uint64, req interface{}) (interface{}, error) {
	return h.f.Lookup(req)
}
func (h *vhLeader) StaleRead(id uint64, req interface{}) (interface{}, error) { return h.f.Lookup(req) }
func (h *vhLeader) SyncPropose(ctx context.Context, s *client.Session, cmd []byte) (sm.Result, error) {
	idx := h.applied + 1
	out, err := h.f.Update([]sm.Entry{{Index: idx, Cmd: cmd}})
	if err != nil {
		return sm.Result{}, err
	}
	h.applied = idx
	// dragonboat stores proposals as encoded entries: one header byte (no compression) + payload
	h.log.Append(raftpb.EncodedEntry, append([]byte{0}, cmd...))
	return out[0].Result, nil
}
func (h *vhLeader) GetNoOPSession(id uint64) *client.Session { return nil }

func (h *vhLeader) GetTables() ([]table.Table, error) { return []table.Table{{Name: "t", ClusterID: 10001}}, nil }
func (h *vhLeader) GetTable(name string) (table.ActiveTable, error) {
	if name != "t" {
		return table.ActiveTable{}, serrors.ErrTableNotFound
	}
	return table.Table{Name: "t", ClusterID: 10001}.AsActive(h), nil
}
func (h *vhLeader) Restore(name string, reader io.Reader) error     { panic("unused") }
func (h *vhLeader) CreateTable(name string) (table.Table, error)   { panic("unused") }
func (h *vhLeader) DeleteTable(name string) error                   { panic("unused") }

// the replication stream: the follower's client calls the real server
type vhRepStream struct {
	ctx  context.Context
	msgs []*regattapb.ReplicateResponse
}
type vhRepServer struct {
	grpc.ServerStream
	s *vhRepStream
}
type vhRepClient struct {
	grpc.ClientStream
	s *vhRepStream
}

func (s *vhRepServer) Context() context.Context { return s.s.ctx }
func (s *vhRepServer) Send(m *regattapb.ReplicateResponse) error {
	// the wire: what the follower receives is a copy taken at Send time
	b, err := m.MarshalVT()
	if err != nil {
		return err
	}
	c := &regattapb.ReplicateResponse{}
	if err := c.UnmarshalVT(b); err != nil {
		return err
	}
	s.s.msgs = append(s.s.msgs, c)
	return nil
}
func (c *vhRepClient) Recv() (*regattapb.ReplicateResponse, error) {
	if len(c.s.msgs) == 0 {
		return nil, io.EOF
	}
	m := c.s.msgs[0]
	c.s.msgs = c.s.msgs[1:]
	return m, nil
}

type vhLogClient struct{ srv *regattaserver.LogServer }

func (c *vhLogClient) Replicate(ctx context.Context, req *regattapb.ReplicateRequest, opts ...grpc.CallOption) (regattapb.Log_ReplicateClient, error) {
	st := &vhRepStream{ctx: ctx}
	if err := c.srv.Replicate(req, &vhRepServer{s: st}); err != nil {
		return nil, err
	}
	return &vhRepClient{s: st}, nil
}

func vhGauge() prometheus.Gauge { return prometheus.NewGauge(prometheus.GaugeOpts{Name: "vh"}) }

func vhSameContent(a, b []*regattapb.KeyValue, what string) {
	verif.Assert(len(a) == len(b), what+": same number of pairs")
	for i := 0; i < len(a) && i < len(b); i++ {
		verif.Assert(bytes.Equal(a[i].Key, b[i].Key) && bytes.Equal(a[i].Value, b[i].Value), what+": same pairs")
	}
}

// VH_C05_round: one replication round. The leader table is in an arbitrary
// state at index L with everything up to L compacted; the follower table has
// the same content and records leader index L. The leader then applies m
// arbitrary commands (puts, range deletes, non-idempotent transactions, no-ops).
// The real worker.do pulls from the real LogServer.Replicate (arbitrary
// message-size limit, so the stream is cut anywhere) and proposes into the
// follower's real state machine. Afterwards the follower equals the leader
// and records the leader's applied index.
func VH_C05_round(m, kinds, maxN, maxK, idxBits int) {
	lf := fsm.VHNewFSM(nil)
	keys, vals := fsm.VHLoadState(lf, maxN, maxK, -1)
	_, L, _ := fsm.VHSummary(lf)
	// indices travel as varints: idxBits bounds the number of encodings explored
	// (14 bits: one- and two-byte encodings and the step between them)
	verif.Assume(L >= 1 && L < 1<<uint(idxBits))
	leader := &vhLeader{f: lf, log: logreader.VHNewLog(L), applied: L}

	nh := verif.NewNodeHost()
	ff := fsm.VHNewFSM(nil)
	for i := range keys {
		fsm.VHPut(ff, keys[i], vals[i])
	}
	fsm.VHSetIndexes(ff, 1+uint64(verif.Byte()&0x3f), L) // the follower's own log index is unrelated
	verif.StartShard(nh, 10001, 100, ff)
	eng := storage.VHEngine(nh, nil, 1)

	// the leader's content at every index L..L+m
	at := [][]*regattapb.KeyValue{fsm.VHContent(lf)}
	for i := 0; i < m; i++ {
		b, err := fsm.VHArbCommand(kinds, maxK).MarshalVT()
		if err != nil {
			panic(err)
		}
		_, err = leader.SyncPropose(context.Background(), nil, b)
		verif.Assert(err == nil, "leader applies the command")
		at = append(at, fsm.VHContent(lf))
	}

	srv := regattaserver.NewLogServer(leader, &logreader.Simple{LogQuerier: leader.log}, zap.NewNop(), verif.Uint64())
	w := &worker{
		workerFactory: &workerFactory{engine: eng, logClient: &vhLogClient{srv: srv}, logTimeout: time.Minute, log: zap.NewNop().Sugar()},
		table:         "t",
		log:           zap.NewNop().Sugar(),
	}
	w.metrics.replicationLeaderIndex, w.metrics.replicationFollowerIndex, w.metrics.replicationLeased = vhGauge(), vhGauge(), vhGauge()

	res, err := w.do(L, eng.GetNoOPSession(10001))
	verif.Assert(err == nil, "the round succeeds")
	_, _, fLeaderIdx := fsm.VHSummary(ff)
	verif.Assert(fLeaderIdx >= L && fLeaderIdx <= leader.applied, "the recorded leader index is one the leader produced and never moves backwards")
	if fLeaderIdx < L || fLeaderIdx > leader.applied {
		return
	}
	// the property: the follower's content is the leader's content at exactly the recorded index
	vhSameContent(fsm.VHContent(ff), at[fLeaderIdx-L], "follower content == leader content at the recorded leader index")
	switch res {
	case resultFollowerTailing, resultFollowerLagging:
		// the stream ran to its end: everything the leader had applied arrived
		verif.Assert(fLeaderIdx == leader.applied, "a completed round leaves the follower at the leader's applied index")
		verif.Assert(res == resultFollowerTailing, "nothing is left on the leader: the follower is tailing")
		verif.Cover("completed")
	case resultUnknown:
		// the stream ended early (its deadline passed on the server): a prefix was applied
		verif.Cover("cut-short")
	default:
		verif.Assert(false, "no other outcome for a follower inside the leader's log")
	}
	verif.Cover("end")
}

// VH_C05_split: the proposal-size cut inside proposeBatch. One replication
// message carries an arbitrary command, a put with a 300 KiB value (so the
// accumulated sequence crosses desiredProposalSize there) and another
// small put; the follower must apply each command exactly once
// although the message is split into two proposals.
func VH_C05_split(kinds int) {
	lf := fsm.VHNewFSM(nil)
	_, _ = fsm.VHLoadState(lf, 0, 1, -1)
	_, L, _ := fsm.VHSummary(lf)
	verif.Assume(L >= 1 && L < 64)
	leader := &vhLeader{f: lf, log: logreader.VHNewLog(L), applied: L}
	nh := verif.NewNodeHost()
	// the leader's content at every index L..L+3; after EVERY proposal the follower
	// applies (not only at the end of the round) its content must be the leader's
	// at exactly the leader index it has recorded
	at := [][]*regattapb.KeyValue{fsm.VHContent(lf)}
	var ff *fsm.FSM
	started := false
	ff = fsm.VHNewFSM(func(uint64) {
		if !started {
			return
		}
		_, _, li := fsm.VHSummary(ff)
		verif.Assert(li >= L && li-L < uint64(len(at)), "after a proposal: the recorded leader index is one the leader produced")
		if li >= L && li-L < uint64(len(at)) {
			vhSameContent(fsm.VHContent(ff), at[li-L], "after a proposal: follower content == leader content at the recorded leader index")
		}
	})
	for _, kv := range fsm.VHContent(lf) {
		fsm.VHPut(ff, kv.Key, kv.Value)
	}
	fsm.VHSetIndexes(ff, 7, L)
	verif.StartShard(nh, 10001, 100, ff)
	eng := storage.VHEngine(nh, nil, 1)

	big := make([]byte, 300<<10)
	big[0] = verif.Byte()
	cmds := []*regattapb.Command{
		fsm.VHArbCommand(kinds, 1),
		{Table: []byte("t"), Type: regattapb.Command_PUT, Kv: &regattapb.KeyValue{Key: verif.Bytes(1), Value: big}},
		{Table: []byte("t"), Type: regattapb.Command_PUT, Kv: &regattapb.KeyValue{Key: verif.Bytes(1), Value: verif.Bytes(1)}},
	}
	for _, c := range cmds {
		b, err := c.MarshalVT()
		if err != nil {
			panic(err)
		}
		_, err = leader.SyncPropose(context.Background(), nil, b)
		verif.Assert(err == nil, "leader applies the command")
		at = append(at, fsm.VHContent(lf))
	}
	started = true
	srv := regattaserver.NewLogServer(leader, &logreader.Simple{LogQuerier: leader.log}, zap.NewNop(), 0)
	w := &worker{
		workerFactory: &workerFactory{engine: eng, logClient: &vhLogClient{srv: srv}, logTimeout: time.Minute, log: zap.NewNop().Sugar()},
		table:         "t",
		log:           zap.NewNop().Sugar(),
	}
	w.metrics.replicationLeaderIndex, w.metrics.replicationFollowerIndex, w.metrics.replicationLeased = vhGauge(), vhGauge(), vhGauge()
	res, err := w.do(L, eng.GetNoOPSession(10001))
	verif.Assert(err == nil, "the round succeeds")
	if res == resultUnknown {
		return // the stream deadline passed on the server (covered by VH_C05_round)
	}
	_, _, fLeaderIdx := fsm.VHSummary(ff)
	verif.Assert(fLeaderIdx == leader.applied, "a completed round leaves the follower at the leader's applied index")
	vhSameContent(fsm.VHContent(ff), fsm.VHContent(lf), "split message: follower content == leader content")
	verif.Cover("end")
}

func VH_C05_vacuity() {
	lf := fsm.VHNewFSM(nil)
	fsm.VHSetIndexes(lf, 5, 0)
	leader := &vhLeader{f: lf, log: logreader.VHNewLog(5), applied: 5}
	b, _ := (&regattapb.Command{Table: []byte("t"), Type: regattapb.Command_PUT, Kv: &regattapb.KeyValue{Key: []byte("k"), Value: []byte("v")}}).MarshalVT()
	_, err := leader.SyncPropose(context.Background(), nil, b)
	verif.Assume(err == nil && leader.applied == 6)
	verif.Assert(false, "vacuity")
}
