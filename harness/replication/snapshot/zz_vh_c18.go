//go:build verif

package snapshot

import (
	"bufio"
	"bytes"
	"context"
	"io"

	"github.com/jamf/regatta/internal/verif"
	"github.com/jamf/regatta/regattapb"
	pcodec "github.com/jamf/regatta/regattaserver/encoding/proto"
	"github.com/klauspost/compress/snappy"
	"google.golang.org/grpc"
)

// vhWire: a gRPC stream as a queue of encoded messages; Send encodes at once
// (as gRPC does — the sender reuses its buffer), RecvMsg decodes with the
// registered codec into the caller's object.
type vhWire struct {
	msgs [][]byte
}

type vhWireServer struct {
	grpc.ServerStream
	w *vhWire
}

type vhWireClient struct {
	grpc.ClientStream
	w *vhWire
}

func (s *vhWireServer) Context() context.Context               { return context.Background() }
func (s *vhWireServer) Send(c *regattapb.SnapshotChunk) error   { return s.w.Send(c) }
func (c *vhWireClient) Context() context.Context               { return context.Background() }
func (c *vhWireClient) Recv() (*regattapb.SnapshotChunk, error) { return c.w.Recv() }
func (c *vhWireClient) RecvMsg(m interface{}) error            { return c.w.RecvMsg(m) }

func (w *vhWire) Send(c *regattapb.SnapshotChunk) error {
	b, err := pcodec.Codec{}.Marshal(c)
	if err != nil {
		return err
	}
	w.msgs = append(w.msgs, b)
	return nil
}
func (w *vhWire) Recv() (*regattapb.SnapshotChunk, error) {
	c := &regattapb.SnapshotChunk{}
	return c, w.RecvMsg(c)
}
func (w *vhWire) RecvMsg(m interface{}) error {
	if len(w.msgs) == 0 {
		return io.EOF
	}
	b := w.msgs[0]
	w.msgs = w.msgs[1:]
	return pcodec.Codec{}.Unmarshal(b, m)
}

// vhCutReader hands out its data in pieces whose sizes the environment picks.
type vhCutReader struct {
	data  []byte
	whole bool // no cuts: hand out as much as fits
}

func (r *vhCutReader) Read(p []byte) (int, error) {
	if len(r.data) == 0 {
		return 0, io.EOF
	}
	max := len(r.data)
	if len(p) < max {
		max = len(p)
	}
	n := max
	if !r.whole {
		n = verif.Concretize(verif.Int(), 1, max)
	}
	copy(p, r.data[:n])
	r.data = r.data[n:]
	return n, nil
}

func vhFileOver(buf *bytes.Buffer) *snapshotFile {
	return &snapshotFile{w: snappy.NewBufferedWriter(buf), r: snappy.NewReader(buf), lenBuff: make([]byte, 8)}
}

// VH_C18_framing: k records of arbitrary content written to a snapshot file,
// shipped as a chunk stream cut at arbitrary positions through
// Writer.ReadFrom -> (codec) -> Reader.WriteTo, and read back record by
// record: same records, same boundaries.
func VH_C18_framing(k int, viaRead int) {
	var src bytes.Buffer
	sf := vhFileOver(&src)
	var recs [][]byte
	for i := 0; i < k; i++ {
		var r []byte
		if viaRead == 2 {
			r = verif.Bytes(2) // the short-read variant varies the reads, not the shapes
		} else {
			r = verif.Bytes(verif.Concretize(verif.Int(), 1, 3))
		}
		n, err := sf.Write(r)
		verif.Assert(err == nil && n == len(r), "record written")
		recs = append(recs, r)
	}
	verif.Assert(sf.w.Flush() == nil, "flush")
	wire := &vhWire{}
	raw := append([]byte(nil), src.Bytes()...)
	n, err := io.Copy(&Writer{Sender: &vhWireServer{w: wire}}, bufio.NewReaderSize(&vhCutReader{data: raw, whole: viaRead == 2}, 16))
	verif.Assert(err == nil && int(n) == len(raw), "whole file shipped")
	var total uint64
	for _, m := range wire.msgs {
		c := &regattapb.SnapshotChunk{}
		verif.Assert(c.UnmarshalVT(m) == nil && c.Len == uint64(len(c.Data)), "chunk length field consistent with its data")
		total += c.Len
	}
	verif.Assert(total == uint64(len(raw)), "chunks cover the file exactly")

	var dst bytes.Buffer
	rd := Reader{Stream: &vhWireClient{w: wire}}
	if viaRead != 1 {
		w, err := rd.WriteTo(&dst)
		verif.Assert(err == nil && int(w) == len(raw), "whole stream received")
	} else {
		p := make([]byte, 64)
		for {
			n, err := rd.Read(p)
			if err == io.EOF {
				break
			}
			verif.Assert(err == nil, "chunk received")
			dst.Write(p[:n])
		}
	}
	back := vhFileOver(&dst)
	if viaRead == 2 {
		verif.ShortReads(true) // the decompressing reader may deliver a record's length prefix or payload in pieces
	}
	p := make([]byte, 16)
	for i := range recs {
		n, err := back.Read(p)
		verif.Assert(err == nil && n == len(recs[i]), "record boundary preserved")
		verif.Assert(bytes.Equal(p[:n], recs[i]), "record content preserved")
	}
	_, err = back.Read(p)
	verif.Assert(err == io.EOF, "nothing after the last record")
	verif.Cover("end")
}

func VH_C18_framing_vacuity() {
	var src bytes.Buffer
	sf := vhFileOver(&src)
	_, err := sf.Write(verif.Bytes(2))
	verif.Assume(err == nil && sf.w.Flush() == nil && src.Len() == 10)
	verif.Assert(false, "vacuity")
}
