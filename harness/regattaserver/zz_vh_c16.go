//go:build verif

package regattaserver

import (
	"context"

	"github.com/jamf/regatta/internal/verif"
	"github.com/jamf/regatta/regattapb"
	"github.com/jamf/regatta/storage"
	"github.com/jamf/regatta/storage/kv"
	"github.com/jamf/regatta/storage/table"
	"github.com/jamf/regatta/storage/table/fsm"
	"google.golang.org/grpc/codes"
	"google.golang.org/grpc/status"
)

type vhNode struct {
	kv  *KVServer
	ts  *TablesServer
	f   *fsm.FSM
	lf  *kv.LFSM
	eng *storage.Engine
}

// vhServer: the real KVServer / TablesServer over the real Engine, Manager,
// RaftStore+LFSM and one table "t" (real FSM), behind NodeHost model M2.
func vhServer() *vhNode {
	nh := verif.NewNodeHost()
	rs, lf, _ := kv.VHNewStoreOn(nh, 1000)
	f := fsm.VHNewFSM(nil)
	verif.StartShard(nh, 10001, 5, f)
	table.VHCatalogue(lf, "t", 10001, 1)
	m := table.VHManager(rs, nh, 1)
	eng := storage.VHEngine(nh, m, 1)
	return &vhNode{kv: &KVServer{Storage: eng}, ts: &TablesServer{Tables: eng}, f: f, lf: lf, eng: eng}
}

type vhSnap struct {
	count         int64
	index, leader uint64
}

func (n *vhNode) snap() vhSnap {
	c, i, l := fsm.VHSummary(n.f)
	return vhSnap{c, i, l}
}

// vhKeyOfClass: 0 absent, 1 one arbitrary byte, 2 maximum length (1024), 3 over the limit (1025).
func vhKeyOfClass(c int) []byte {
	switch c {
	case 0:
		return nil
	case 1:
		return verif.Bytes(1)
	case 2:
		return make([]byte, 1024)
	}
	return make([]byte, 1025)
}

// vhValueOfClass: 0 absent, 1 one byte, 2 maximum (2 MiB), 3 over the limit.
func vhValueOfClass(c int) []byte {
	switch c {
	case 0:
		return nil
	case 1:
		return verif.Bytes(1)
	case 2:
		return make([]byte, table.MaxValueLen)
	}
	return make([]byte, table.MaxValueLen+1)
}

func vhTableName() []byte {
	switch verif.Choice(3) {
	case 0:
		return nil
	case 1:
		return []byte("t")
	}
	return []byte("nope")
}

// VH_C16_range: Range / IterateRange with arbitrary field combinations.
func VH_C16_range(stream int) {
	n := vhServer()
	before := n.snap()
	tbl := vhTableName()
	keyClass := verif.Choice(4)
	req := &regattapb.RangeRequest{Table: tbl, Key: vhKeyOfClass(keyClass), Limit: verif.Int64(), KeysOnly: verif.Bool(), CountOnly: verif.Bool()}
	endClass := verif.Choice(4)
	req.RangeEnd = vhKeyOfClass(endClass)
	switch verif.Choice(5) {
	case 1:
		req.MinModRevision = 1
	case 2:
		req.MaxModRevision = 1
	case 3:
		req.MinCreateRevision = 1
	case 4:
		req.MaxCreateRevision = 1
	}
	unsupported := req.MinModRevision > 0 || req.MaxModRevision > 0 || req.MinCreateRevision > 0 || req.MaxCreateRevision > 0
	malformed := req.Limit < 0 || (req.KeysOnly && req.CountOnly) || len(tbl) == 0 || keyClass == 0
	oversize := keyClass == 3 || endClass == 3
	var err error
	panicked := verif.Panics(func() {
		if stream == 0 {
			_, err = n.kv.Range(context.Background(), req)
		} else {
			err = n.kv.IterateRange(req, &vhRangeStream{ctx: context.Background()})
		}
	})
	verif.Assert(!panicked, "no range request crashes the server")
	code := status.Code(err)
	switch {
	case req.Limit < 0 || (req.KeysOnly && req.CountOnly):
		verif.Assert(code == codes.InvalidArgument, "negative limit / keys_only+count_only: InvalidArgument")
		verif.Cover("malformed")
	case unsupported:
		verif.Assert(code == codes.Unimplemented, "revision filters: Unimplemented")
		verif.Cover("unsupported")
	case malformed:
		verif.Assert(code == codes.InvalidArgument, "missing table or key: InvalidArgument")
	case string(tbl) != "t":
		verif.Assert(code == codes.NotFound, "unknown table: NotFound")
		verif.Cover("unknown-table")
	case oversize:
		verif.Assert(code != codes.OK, "oversized key or range end is refused")
		verif.Cover("oversize")
	default:
		verif.Assert(code == codes.OK, "a valid range request is served")
		verif.Cover("valid")
	}
	verif.Assert(n.snap() == before, "a read never changes the table")
	verif.Cover("end")
}

type vhRangeStream struct {
	regattapb.KV_IterateRangeServer
	ctx  context.Context
	sent int
}

func (s *vhRangeStream) Context() context.Context            { return s.ctx }
func (s *vhRangeStream) Send(*regattapb.RangeResponse) error { s.sent++; return nil }

// VH_C16_write: Put / DeleteRange with arbitrary field combinations.
func VH_C16_write(del int) {
	n := vhServer()
	before := n.snap()
	tbl := vhTableName()
	keyClass := verif.Choice(4)
	key := vhKeyOfClass(keyClass)
	valClass := 1
	var err error
	var panicked bool
	if del == 0 {
		valClass = verif.Choice(4)
		req := &regattapb.PutRequest{Table: tbl, Key: key, Value: vhValueOfClass(valClass), PrevKv: verif.Bool()}
		panicked = verif.Panics(func() { _, err = n.kv.Put(context.Background(), req) })
	} else {
		req := &regattapb.DeleteRangeRequest{Table: tbl, Key: key, RangeEnd: vhKeyOfClass(verif.Choice(3)), PrevKv: verif.Bool(), Count: verif.Bool()}
		panicked = verif.Panics(func() { _, err = n.kv.DeleteRange(context.Background(), req) })
	}
	verif.Assert(!panicked, "no write request crashes the server")
	code := status.Code(err)
	switch {
	case len(tbl) == 0 || keyClass == 0:
		verif.Assert(code == codes.InvalidArgument, "missing table or key: InvalidArgument")
		verif.Assert(n.snap() == before, "a refused write has no effect")
		verif.Cover("malformed")
	case string(tbl) != "t":
		verif.Assert(code == codes.NotFound, "unknown table: NotFound")
		verif.Assert(n.snap() == before, "a refused write has no effect")
	case keyClass == 3 || valClass == 3:
		verif.Assert(code != codes.OK, "oversized key or value is refused")
		verif.Assert(n.snap() == before, "a refused write has no effect")
		verif.Cover("oversize")
	default:
		verif.Assert(code == codes.OK, "a valid write is accepted")
		verif.Assert(n.snap().index > before.index, "an accepted write is applied")
		verif.Cover("valid")
	}
	verif.Cover("end")
}

// VH_C16_txn: the same limits hold for operations nested in a transaction.
// shape: 0 nested put, 1 nested delete range, 2 nested range, 3 empty oneof, 4 put next to an empty oneof, 5 put next to a range
func VH_C16_txn(shape int) {
	n := vhServer()
	before := n.snap()
	req := &regattapb.TxnRequest{Table: []byte("t")}
	invalid := false
	var nestedKey []byte
	switch shape {
	case 0:
		kc, vc := verif.Choice(4), verif.Choice(4)
		nestedKey = vhKeyOfClass(kc)
		req.Success = []*regattapb.RequestOp{{Request: &regattapb.RequestOp_RequestPut{RequestPut: &regattapb.RequestOp_Put{Key: nestedKey, Value: vhValueOfClass(vc)}}}}
		invalid = kc == 0 || kc == 3 || vc == 3
	case 1:
		kc := verif.Choice(4)
		req.Success = []*regattapb.RequestOp{{Request: &regattapb.RequestOp_RequestDeleteRange{RequestDeleteRange: &regattapb.RequestOp_DeleteRange{Key: vhKeyOfClass(kc), Count: true}}}}
		invalid = kc == 0 || kc == 3
	case 2:
		kc := verif.Choice(4)
		r := &regattapb.RequestOp_Range{Key: vhKeyOfClass(kc), Limit: verif.Int64(), KeysOnly: verif.Bool(), CountOnly: verif.Bool()}
		req.Success = []*regattapb.RequestOp{{Request: &regattapb.RequestOp_RequestRange{RequestRange: r}}}
		invalid = kc == 0 || kc == 3 || r.Limit < 0 || (r.KeysOnly && r.CountOnly)
	case 4, 5:
		// two operations: the limits hold for every one of them, wherever it stands
		kc, vc := verif.Choice(4), verif.Choice(4)
		nestedKey = vhKeyOfClass(kc)
		bad := &regattapb.RequestOp{Request: &regattapb.RequestOp_RequestPut{RequestPut: &regattapb.RequestOp_Put{Key: nestedKey, Value: vhValueOfClass(vc)}}}
		other := &regattapb.RequestOp{} // an unset oneof
		if shape == 5 {
			other = &regattapb.RequestOp{Request: &regattapb.RequestOp_RequestRange{RequestRange: &regattapb.RequestOp_Range{Key: []byte("x")}}}
		}
		ops := []*regattapb.RequestOp{other, bad}
		if verif.Bool() {
			ops = []*regattapb.RequestOp{bad, other}
		}
		if verif.Bool() {
			req.Success = ops
		} else {
			req.Failure = ops
		}
		invalid = kc == 0 || kc == 3 || vc == 3
	case 6:
		// predicates with raw enum values: compare.result / compare.target are open
		// proto3 enums, a client can send any int32; the compared key exists
		_, perr := n.kv.Put(context.Background(), &regattapb.PutRequest{Table: []byte("t"), Key: []byte("k"), Value: []byte("v")})
		verif.Assume(perr == nil)
		before = n.snap()
		cmp := &regattapb.Compare{Key: []byte("k"), Result: regattapb.Compare_CompareResult(int32(verif.Int64())), Target: regattapb.Compare_CompareTarget(int32(verif.Int64()))}
		if verif.Bool() {
			cmp.TargetUnion = &regattapb.Compare_Value{Value: verif.Bytes(1)}
		}
		if verif.Bool() {
			cmp.RangeEnd = []byte{0}
		}
		req.Compare = []*regattapb.Compare{cmp}
		if verif.Bool() { // read-only: answered on the read path; otherwise through the log
			req.Success = []*regattapb.RequestOp{{Request: &regattapb.RequestOp_RequestRange{RequestRange: &regattapb.RequestOp_Range{Key: []byte("k")}}}}
		} else {
			req.Success = []*regattapb.RequestOp{{Request: &regattapb.RequestOp_RequestPut{RequestPut: &regattapb.RequestOp_Put{Key: []byte("k"), Value: []byte("w")}}}}
			req.Failure = []*regattapb.RequestOp{{Request: &regattapb.RequestOp_RequestPut{RequestPut: &regattapb.RequestOp_Put{Key: []byte("k"), Value: []byte("w")}}}}
		}
		verif.Cover("raw-enums")
	default:
		req.Success = []*regattapb.RequestOp{{}}
	}
	var err error
	panicked := verif.Panics(func() { _, err = n.kv.Txn(context.Background(), req) })
	verif.Assert(!panicked, "no transaction request crashes the server")
	code := status.Code(err)
	if invalid {
		verif.Cover("invalid-nested")
		verif.Assert(code != codes.OK, "a transaction with an operation violating the documented limits is refused")
		verif.Assert(n.snap() == before, "a refused transaction has no effect")
		if shape == 0 || shape >= 4 {
			verif.Assert(!fsm.VHHasKey(n.f, nestedKey), "no record outside the limits is ever created")
		}
	} else if shape == 6 {
		// whatever the server makes of unknown enum values: it answers, and a refusal has no effect
		if code != codes.OK {
			verif.Assert(n.snap() == before, "a refused transaction has no effect")
		}
	} else if shape != 3 && shape != 4 {
		verif.Assert(code == codes.OK, "a valid transaction is accepted")
		verif.Cover("valid")
	}
	verif.Cover("end")
}

// VH_C16_tables: table mutations on leader and follower servers.
func VH_C16_tables() {
	n := vhServer()
	name := ""
	switch verif.Choice(3) {
	case 1:
		name = "t"
	case 2:
		name = "new"
	}
	ro := &ReadonlyTablesServer{TablesServer: *n.ts}
	create := verif.Bool()
	var err, roErr error
	panicked := verif.Panics(func() {
		if create {
			_, roErr = ro.Create(context.Background(), &regattapb.CreateTableRequest{Name: name})
			_, err = n.ts.Create(context.Background(), &regattapb.CreateTableRequest{Name: name})
		} else {
			_, roErr = ro.Delete(context.Background(), &regattapb.DeleteTableRequest{Name: name})
			_, err = n.ts.Delete(context.Background(), &regattapb.DeleteTableRequest{Name: name})
		}
	})
	verif.Assert(!panicked, "no tables request crashes the server")
	verif.Assert(status.Code(roErr) == codes.Unimplemented, "table mutations sent to a follower: Unimplemented")
	code := status.Code(err)
	_, tExists := kv.VHGetRaw(n.lf, "/tables/t")
	_, newExists := kv.VHGetRaw(n.lf, "/tables/new")
	switch {
	case name == "":
		verif.Assert(code == codes.InvalidArgument, "missing table name: InvalidArgument")
		verif.Assert(tExists && !newExists, "a refused table mutation has no effect")
	case create && name == "t":
		verif.Assert(code != codes.OK && tExists, "creating an existing table is refused without effect")
	case !create && name == "new":
		verif.Assert(code != codes.OK && tExists && !newExists, "deleting an unknown table is refused without effect")
	case create:
		verif.Assert(code == codes.OK && newExists, "a valid create is accepted")
	default:
		verif.Assert(code == codes.OK && !tExists, "a valid delete is accepted")
	}
	verif.Cover("end")
}

func VH_C16_vacuity() {
	n := vhServer()
	_, err := n.kv.Put(context.Background(), &regattapb.PutRequest{Table: []byte("t"), Key: []byte("k"), Value: []byte("v")})
	verif.Assume(err == nil)
	r, err := n.kv.Range(context.Background(), &regattapb.RangeRequest{Table: []byte("t"), Key: []byte("k")})
	verif.Assume(err == nil && r.Count == 1)
	verif.Assert(false, "vacuity")
}
