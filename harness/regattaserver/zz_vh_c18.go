//go:build verif

package regattaserver

import (
	"strings"

	"github.com/jamf/regatta/internal/verif"
	"github.com/jamf/regatta/regattapb"
	rproto "github.com/jamf/regatta/regattaserver/encoding/proto"
)

// VH_C18_recvbuffers: the registered codec decodes with UnmarshalVTUnsafe,
// i.e. decoded byte fields point into the receive buffer (established here
// by executing the codec and then overwriting the buffer). A decoded message
// therefore stays what was sent only as long as the transport does not hand
// the buffer to the next message: the server options regatta installs must
// not enable a receive-buffer pool. Engine only (the origin of an option
// value is visible to the engine, not to a native run).
func VH_C18_recvbuffers() {
	in := &regattapb.PutRequest{Table: []byte("tt"), Key: verif.Bytes(2), Value: verif.Bytes(1)}
	var c rproto.Codec
	buf, err := c.Marshal(in)
	verif.Assert(err == nil, "codec marshals")
	out := &regattapb.PutRequest{}
	verif.Assert(c.Unmarshal(buf, out) == nil, "codec unmarshals")
	verif.Assert(string(out.Table) == "tt", "decoded message is what was sent")
	for i := range buf {
		buf[i] = 'x' // the transport reuses the buffer for the next message
	}
	aliases := string(out.Table) != "tt"
	if aliases {
		verif.Cover("codec-aliases-receive-buffer")
	}
	for _, o := range defaultOpts {
		origin := verif.Origin(o)
		verif.Assert(!(aliases && strings.Contains(origin, "BufferPool")), "decoded messages alias the receive buffer, so the server must not pool receive buffers")
	}
	verif.Assert(len(defaultOpts) >= 1, "harness: default options visible")
	verif.Cover("end")
}
