//go:build verif

package security

import (
	"crypto/tls"
	"crypto/x509"
	"crypto/x509/pkix"

	"github.com/jamf/regatta/internal/verif"
)

// VH_C17_tls: the option logic of a TLS endpoint, i.e. what regatta tells
// crypto/tls to enforce. With a trusted CA (or ClientCertAuth) the server
// requires and verifies client certificates against that CA; with an allowed
// common name the additional peer check accepts a verified chain exactly when
// its leaf carries exactly that name. The handshake, chain building and
// hostname matching themselves are crypto/tls / crypto/x509 (trusted).
func VH_C17_tls(n int) {
	cert, key := verif.TempFile("cert"), verif.TempFile("key")
	ca := ""
	if verif.Bool() {
		ca = verif.TempFile("ca")
	}
	cca := verif.Bool()
	allowed := verif.String(verif.Concretize(verif.Int(), 0, n))
	ti := TLSInfo{CertFile: cert, KeyFile: key, TrustedCAFile: ca, ClientCertAuth: cca, AllowedCN: allowed,
		parseFunc: func([]byte, []byte) (tls.Certificate, error) { return tls.Certificate{}, nil }}
	cfg, err := ti.ServerConfig()
	verif.Assert(err == nil && cfg != nil, "server config is built")
	if err != nil || cfg == nil {
		return
	}
	verif.Assert(cfg.MinVersion >= tls.VersionTLS12, "TLS 1.2 at least")
	if ca != "" || cca {
		verif.Assert(cfg.ClientAuth == tls.RequireAndVerifyClientCert, "with a trusted CA or client-cert auth, a verified client certificate is required")
		verif.Cover("client-auth")
	} else {
		verif.Assert(cfg.ClientAuth == tls.NoClientCert, "without them no client certificate is requested")
	}
	if ca != "" {
		verif.Assert(cfg.ClientCAs != nil, "client certificates are verified against the configured CA, not the system roots")
	}
	if allowed == "" {
		verif.Assert(cfg.VerifyPeerCertificate == nil, "no extra peer check without an allowed name")
		verif.Cover("end")
		return
	}
	verif.Assert(cfg.VerifyPeerCertificate != nil, "an allowed common name installs the peer check")
	if cfg.VerifyPeerCertificate == nil {
		return
	}
	presented := verif.String(verif.Concretize(verif.Int(), 0, n))
	leaf := &x509.Certificate{Subject: pkix.Name{CommonName: presented}}
	other := &x509.Certificate{Subject: pkix.Name{CommonName: verif.String(1)}}
	var chains [][]*x509.Certificate
	switch verif.Choice(4) {
	case 0: // no verified chain at all
	case 1:
		chains = [][]*x509.Certificate{{leaf}}
	case 2: // the leaf is the first certificate of the chain; issuers follow
		chains = [][]*x509.Certificate{{leaf, other}}
	case 3: // an empty chain entry is skipped
		chains = [][]*x509.Certificate{{}, {leaf, other}}
	}
	err = cfg.VerifyPeerCertificate(nil, chains)
	if len(chains) != 0 && presented == allowed {
		verif.Assert(err == nil, "a verified chain whose leaf carries exactly the allowed common name is accepted")
		verif.Cover("accepted")
	} else {
		verif.Assert(err != nil, "no verified chain, or a leaf with any other common name, is refused")
		verif.Cover("refused")
	}
	verif.Cover("end")
}
