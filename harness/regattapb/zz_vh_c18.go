//go:build verif

package regattapb

import (
	"github.com/jamf/regatta/internal/verif"
)

// Generators of arbitrary messages "as a wire decoder can produce them":
// plain bytes fields are nil or non-empty (empty == absent on the wire),
// proto3-optional bytes may also be present-and-empty; sub-messages of a set
// oneof arm are never nil; repeated fields have 0..2 elements; all scalar and
// byte values are symbolic.

// Shape classes. To keep the number of shapes linear, one class is chosen per
// harness run and applies to every field of that kind (each field still gets
// its own symbolic content); vhMixed() switches to an independent choice per field.
var (
	vhByteClass = -1 // 0 absent, 1 one byte, 2 two bytes
	vhIntClass  = -1 // 0 zero (absent on the wire), 1: 1..64, 2: 128..383 (two-byte varint), 3: top bit set (ten-byte varint)
)

func vhClasses() {
	vhByteClass = verif.Choice(3)
	vhIntClass = verif.Choice(4)
}

func vhMixed() { vhByteClass, vhIntClass = -1, -1 }

func vhB() []byte {
	c := vhByteClass
	if c < 0 {
		c = verif.Choice(3)
	}
	switch c {
	case 0:
		return nil
	case 1:
		return verif.Bytes(1)
	}
	return verif.Bytes(2)
}

// vhU: an unsigned integer of the current varint length class.
func vhU() uint64 {
	c := vhIntClass
	if c < 0 {
		c = verif.Choice(4)
	}
	switch c {
	case 0:
		return 0
	case 1:
		return 1 + uint64(verif.Byte()&0x3f)
	case 2:
		return 128 + uint64(verif.Byte())
	}
	return 1<<63 | uint64(verif.Byte())
}

// vhI: a signed integer (negative values take ten bytes on the wire).
func vhI() int64 { return int64(vhU()) }

func vhOptB() []byte {
	if verif.Bool() {
		return []byte{}
	}
	return vhB()
}

func vhKV() *KeyValue {
	return &KeyValue{Key: vhB(), Value: vhB(), CreateRevision: vhI(), ModRevision: vhI()}
}

func vhKVs() []*KeyValue {
	var r []*KeyValue
	for i, n := 0, verif.Choice(3); i < n; i++ {
		r = append(r, vhKV())
	}
	return r
}

func vhCompare() *Compare {
	c := &Compare{Result: Compare_CompareResult(verif.Byte() & 3), Key: vhB(), RangeEnd: vhB()}
	if verif.Bool() {
		v := vhB()
		if v == nil {
			v = []byte{} // a set oneof arm decodes to a non-nil (possibly empty) value
		}
		c.TargetUnion = &Compare_Value{Value: v}
	}
	return c
}

func vhRequestOp() *RequestOp {
	switch verif.Choice(4) {
	case 0:
		return &RequestOp{}
	case 1:
		return &RequestOp{Request: &RequestOp_RequestRange{RequestRange: &RequestOp_Range{Key: vhB(), RangeEnd: vhB(), Limit: vhI(), KeysOnly: verif.Bool(), CountOnly: verif.Bool()}}}
	case 2:
		return &RequestOp{Request: &RequestOp_RequestPut{RequestPut: &RequestOp_Put{Key: vhB(), Value: vhB(), PrevKv: verif.Bool()}}}
	}
	return &RequestOp{Request: &RequestOp_RequestDeleteRange{RequestDeleteRange: &RequestOp_DeleteRange{Key: vhB(), RangeEnd: vhB(), PrevKv: verif.Bool(), Count: verif.Bool()}}}
}

func vhResponseOp() *ResponseOp {
	switch verif.Choice(4) {
	case 0:
		return &ResponseOp{}
	case 1:
		return &ResponseOp{Response: &ResponseOp_ResponseRange{ResponseRange: &ResponseOp_Range{Kvs: vhKVs(), More: verif.Bool(), Count: vhI()}}}
	case 2:
		r := &ResponseOp_Put{}
		if verif.Bool() {
			r.PrevKv = vhKV()
		}
		return &ResponseOp{Response: &ResponseOp_ResponsePut{ResponsePut: r}}
	}
	return &ResponseOp{Response: &ResponseOp_ResponseDeleteRange{ResponseDeleteRange: &ResponseOp_DeleteRange{Deleted: vhI(), PrevKvs: vhKVs()}}}
}

func vhTxn() *Txn {
	t := &Txn{}
	for i, n := 0, verif.Choice(2); i < n; i++ {
		t.Compare = append(t.Compare, vhCompare())
	}
	for i, n := 0, verif.Choice(2); i < n; i++ {
		t.Success = append(t.Success, vhRequestOp())
	}
	for i, n := 0, verif.Choice(2); i < n; i++ {
		t.Failure = append(t.Failure, vhRequestOp())
	}
	return t
}

// vhCommand: which selects the populated part (0 scalars only, 1 kv, 2 batch, 3 txn, 4 one level of sequence).
func vhCommand(which int) *Command {
	c := &Command{Table: vhB(), Type: Command_CommandType(verif.Byte() & 7)}
	if which == 0 {
		// the command's own optional scalars (present / absent / present-and-empty)
		c.RangeEnd, c.PrevKvs, c.Count = vhOptB(), verif.Bool(), verif.Bool()
		if verif.Bool() {
			li := vhU()
			c.LeaderIndex = &li
		}
	}
	switch which {
	case 1:
		c.Kv = vhKV()
	case 2:
		c.Batch = vhKVs()
	case 3:
		c.Txn = vhTxn()
	case 4:
		for i, n := 0, 1+verif.Choice(2); i < n; i++ {
			sc := vhCommand(1)
			if verif.Bool() {
				li := vhU()
				sc.LeaderIndex = &li
			}
			c.Sequence = append(c.Sequence, sc)
		}
	}
	return c
}

func vhHeader() *ResponseHeader {
	if verif.Bool() {
		return nil
	}
	return &ResponseHeader{ShardId: vhU(), ReplicaId: vhU(), Revision: vhU(), RaftTerm: vhU(), RaftLeaderId: vhU()}
}

type vhMsg interface {
	MarshalVT() ([]byte, error)
	UnmarshalVT([]byte) error
	SizeVT() int
}

// vhRoundTrip: decode(encode(m)) into a fresh object equals m; SizeVT is the encoded length.
func vhRoundTrip(m, fresh vhMsg, what string) []byte {
	b, err := m.MarshalVT()
	verif.Assert(err == nil, what+": marshal succeeds")
	verif.Assert(len(b) == m.SizeVT(), what+": SizeVT == encoded length")
	verif.Assert(fresh.UnmarshalVT(b) == nil, what+": unmarshal succeeds")
	verif.Assert(verif.DeepEqual(m, fresh), what+": decode(encode(m)) == m")
	return b
}

// VH_C18_mvcc: the mvcc messages (commands, results, transactions).
func VH_C18_mvcc(which int) {
	vhClasses()
	switch which {
	case 0, 1, 2, 3, 4:
		m := vhCommand(which)
		b := vhRoundTrip(m, &Command{}, "Command")
		u := &Command{}
		verif.Assert(u.UnmarshalVTUnsafe(b) == nil && verif.DeepEqual(m, u), "Command: unsafe and safe unmarshal agree")
	case 5:
		m := &CommandResult{Revision: vhU()}
		for i, n := 0, verif.Choice(3); i < n; i++ {
			m.Responses = append(m.Responses, vhResponseOp())
		}
		b := vhRoundTrip(m, &CommandResult{}, "CommandResult")
		u := &CommandResult{}
		verif.Assert(u.UnmarshalVTUnsafe(b) == nil && verif.DeepEqual(m, u), "CommandResult: unsafe and safe unmarshal agree")
	case 6:
		vhRoundTrip(vhTxn(), &Txn{}, "Txn")
	case 7:
		vhRoundTrip(vhRequestOp(), &RequestOp{}, "RequestOp")
		vhRoundTrip(vhResponseOp(), &ResponseOp{}, "ResponseOp")
	default:
		vhRoundTrip(vhCompare(), &Compare{}, "Compare")
		vhMixed() // every combination of present / absent fields and varint classes
		vhRoundTrip(vhKV(), &KeyValue{}, "KeyValue")
	}
	verif.Cover("end")
}

// VH_C18_api: the KV API request / response messages.
func VH_C18_api(which int) {
	vhClasses()
	switch which {
	case 0:
		vhRoundTrip(&RangeRequest{Table: vhB(), Key: vhB(), RangeEnd: vhB(), Limit: vhI(), Linearizable: verif.Bool(), KeysOnly: verif.Bool(), CountOnly: verif.Bool(),
			MinModRevision: vhI(), MaxModRevision: vhI(), MinCreateRevision: vhI(), MaxCreateRevision: vhI()}, &RangeRequest{}, "RangeRequest")
	case 1:
		vhRoundTrip(&RangeResponse{Header: vhHeader(), Kvs: vhKVs(), More: verif.Bool(), Count: vhI()}, &RangeResponse{}, "RangeResponse")
	case 2:
		vhRoundTrip(&PutRequest{Table: vhB(), Key: vhB(), Value: vhB(), PrevKv: verif.Bool()}, &PutRequest{}, "PutRequest")
		r := &PutResponse{Header: vhHeader()}
		if verif.Bool() {
			r.PrevKv = vhKV()
		}
		vhRoundTrip(r, &PutResponse{}, "PutResponse")
	case 3:
		vhRoundTrip(&DeleteRangeRequest{Table: vhB(), Key: vhB(), RangeEnd: vhB(), PrevKv: verif.Bool(), Count: verif.Bool()}, &DeleteRangeRequest{}, "DeleteRangeRequest")
		vhRoundTrip(&DeleteRangeResponse{Header: vhHeader(), Deleted: vhI(), PrevKvs: vhKVs()}, &DeleteRangeResponse{}, "DeleteRangeResponse")
	case 4:
		t := vhTxn()
		vhRoundTrip(&TxnRequest{Table: vhB(), Compare: t.Compare, Success: t.Success, Failure: t.Failure}, &TxnRequest{}, "TxnRequest")
	default:
		m := &TxnResponse{Header: vhHeader(), Succeeded: verif.Bool()}
		for i, n := 0, verif.Choice(3); i < n; i++ {
			m.Responses = append(m.Responses, vhResponseOp())
		}
		vhRoundTrip(m, &TxnResponse{}, "TxnResponse")
	}
	verif.Cover("end")
}

// VH_C18_replication: the replication stream messages; SnapshotChunk also
// into a recycled object that held a different chunk, as the stream readers do.
func VH_C18_replication(which int) {
	vhClasses()
	switch which {
	case 0:
		vhRoundTrip(&ReplicateRequest{Table: vhB(), LeaderIndex: vhU()}, &ReplicateRequest{}, "ReplicateRequest")
	case 1:
		m := &ReplicateResponse{LeaderIndex: vhU()}
		switch verif.Choice(3) {
		case 1:
			m.Response = &ReplicateResponse_ErrorResponse{ErrorResponse: &ReplicateErrResponse{Error: ReplicateError(verif.Byte() & 1)}}
		case 2:
			cr := &ReplicateCommandsResponse{}
			for i, n := 0, verif.Choice(3); i < n; i++ {
				rc := &ReplicateCommand{LeaderIndex: vhU()}
				if verif.Bool() {
					rc.Command = vhCommand(1)
				}
				cr.Commands = append(cr.Commands, rc)
			}
			m.Response = &ReplicateResponse_CommandsResponse{CommandsResponse: cr}
		}
		vhRoundTrip(m, &ReplicateResponse{}, "ReplicateResponse")
	default:
		vhMixed()
		m := &SnapshotChunk{Data: vhB(), Len: vhU(), Index: vhU()}
		b := vhRoundTrip(m, &SnapshotChunk{}, "SnapshotChunk")
		// a recycled receiver: it held another arbitrary chunk, was returned to the pool and taken again
		old := SnapshotChunkFromVTPool()
		vhByteClass, vhIntClass = verif.Choice(3), verif.Choice(2)*3 // the previous chunk: any data length; zero or large integers
		old.Data, old.Len, old.Index = vhB(), vhU(), vhU()
		vhMixed()
		old.ReturnToVTPool()
		rc := SnapshotChunkFromVTPool()
		verif.Assert(rc.UnmarshalVT(b) == nil, "SnapshotChunk: unmarshal into a recycled object succeeds")
		verif.Assert(len(rc.Data) == len(m.Data) && rc.Len == m.Len && rc.Index == m.Index, "SnapshotChunk: a recycled receiver holds exactly the received chunk")
		for i := range m.Data {
			verif.Assert(rc.Data[i] == m.Data[i], "SnapshotChunk: recycled receiver data")
		}
		// WriteTo style reuse: ResetVT between messages on the same object
		rc.ResetVT()
		verif.Assert(rc.UnmarshalVT(b) == nil && len(rc.Data) == len(m.Data) && rc.Len == m.Len && rc.Index == m.Index, "SnapshotChunk: reuse after ResetVT")
		verif.Cover("recycled")
	}
	verif.Cover("end")
}

// VH_C18_pooledsend: a Command built on an object recycled from the pool, the
// way writeCommand and the replication worker build their messages (they set
// table, type, kv / leader index / sequence and nothing else), encodes to
// exactly the fields set, whatever the previous user left behind.
func VH_C18_pooledsend() {
	vhClasses()
	prev := CommandFromVTPool()
	prev.Table, prev.Type, prev.Kv = vhB(), Command_CommandType(verif.Byte()&7), vhKV()
	if verif.Bool() {
		li := vhU()
		prev.LeaderIndex = &li
	}
	if verif.Bool() {
		prev.Sequence = append(prev.Sequence, vhCommand(1))
	}
	prev.ReturnToVTPool()

	cmd := CommandFromVTPool()
	want := &Command{Table: vhB(), Type: Command_PUT, Kv: vhKV()}
	cmd.Table, cmd.Type, cmd.Kv = want.Table, want.Type, want.Kv
	b, err := cmd.MarshalVT()
	verif.Assert(err == nil, "marshal of a recycled command succeeds")
	got := &Command{}
	verif.Assert(got.UnmarshalVT(b) == nil, "unmarshal succeeds")
	verif.Assert(verif.DeepEqual(want, got), "a recycled command encodes exactly the fields its user set")
	verif.Cover("end")
}

func VH_C18_vacuity() {
	vhClasses()
	m := vhCommand(1)
	b, err := m.MarshalVT()
	verif.Assume(err == nil && len(b) > 2)
	verif.Assert(false, "vacuity")
}
