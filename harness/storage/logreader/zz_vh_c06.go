//go:build verif

package logreader

import (
	"errors"

	"github.com/jamf/regatta/internal/verif"
	serrors "github.com/jamf/regatta/storage/errors"
	"github.com/lni/dragonboat/v4"
	"github.com/lni/dragonboat/v4/raftpb"
)

// vhLog models dragonboat's ReadonlyLogReader contract (internal/logdb/logreader.go):
// GetRange = (marker+1, last); Entries(lo,hi,max) fails for lo<=marker and for
// hi>last+1, otherwise returns the consecutive entries from lo whose
// cumulative SizeUpperLimit stays <= max, but always at least one.
type vhLog struct {
	marker uint64
	ents   []raftpb.Entry // indices marker+1 .. marker+len(ents)
	calls  int
}

var (
	vhErrCompacted   = errors.New("vh: log compacted")
	vhErrUnavailable = errors.New("vh: log unavailable")
)

func (l *vhLog) last() uint64 { return l.marker + uint64(len(l.ents)) }

func (l *vhLog) GetLogReader(shardID uint64) (dragonboat.ReadonlyLogReader, error) { return l, nil }
func (l *vhLog) GetRange() (uint64, uint64)                                        { return l.marker + 1, l.last() }
func (l *vhLog) NodeState() (raftpb.State, raftpb.Membership)                      { return raftpb.State{}, raftpb.Membership{} }
func (l *vhLog) Term(index uint64) (uint64, error)                                 { return 1, nil }
func (l *vhLog) Snapshot() raftpb.Snapshot                                         { return raftpb.Snapshot{} }
func (l *vhLog) Entries(low, high, maxSize uint64) ([]raftpb.Entry, error) {
	l.calls++
	if low > high {
		return nil, errors.New("vh: high < low")
	}
	if low <= l.marker {
		return nil, vhErrCompacted
	}
	if high > l.last()+1 {
		return nil, vhErrUnavailable
	}
	var out []raftpb.Entry
	size := uint64(0)
	for i := low; i < high; i++ {
		e := l.ents[i-l.marker-1]
		size += uint64(e.SizeUpperLimit())
		out = append(out, e)
		if size > maxSize {
			break
		}
	}
	if size > maxSize && len(out) > 1 {
		out = out[:len(out)-1]
	}
	return out, nil
}

// vhMakeLog builds a log of w entries after an arbitrary compaction marker,
// with symbolic entry types and a symbolic identity byte in each payload.
func vhMakeLog(w int) *vhLog {
	marker := verif.Uint64()
	verif.Assume(marker < 1<<62)
	l := &vhLog{marker: marker}
	for i := 0; i < w; i++ {
		typ := verif.Byte()
		verif.Assume(typ < 4) // ApplicationEntry, ConfigChangeEntry, EncodedEntry, MetadataEntry
		cmd := make([]byte, 1+i%3)
		cmd[0] = verif.Byte()
		l.ents = append(l.ents, raftpb.Entry{Term: 1, Index: marker + 1 + uint64(i), Type: raftpb.EntryType(typ), Cmd: cmd})
	}
	return l
}

func vhSameEntry(a, b raftpb.Entry) bool {
	return a.Index == b.Index && a.Type == b.Type && a.Term == b.Term && len(a.Cmd) == len(b.Cmd) && a.Cmd[0] == b.Cmd[0]
}

// vhExactPrefix: res is a prefix of the log's consecutive entries starting at first.
func vhExactPrefix(l *vhLog, res []raftpb.Entry, first, applied uint64, what string) {
	for i := range res {
		idx := first + uint64(i)
		verif.Assert(res[i].Index == idx, what+": indices consecutive from the requested index")
		verif.Assert(idx <= applied, what+": nothing beyond the applied index")
		if idx > l.marker && idx <= l.last() {
			verif.Assert(vhSameEntry(res[i], l.ents[idx-l.marker-1]), what+": entry is the log's entry at that index")
		} else {
			verif.Assert(false, what+": returned an entry outside the log")
		}
	}
}

func vhErrClass(err error) int {
	switch {
	case err == nil:
		return 0
	case errors.Is(err, serrors.ErrLogBehind):
		return 1
	case errors.Is(err, serrors.ErrLogAhead):
		return 2
	}
	return 3
}

// VH_C06_reader: Simple and Cached readers against the same log, the cache in
// an arbitrary state satisfying its invariant (contiguous run of real log
// entries, all applied, none compacted, at most `size` of them).
func VH_C06_reader(w, cacheSize, cacheLen int) {
	l := vhMakeLog(w)
	c := l.marker
	applied := c + uint64(verif.Concretize(int(verif.IntRange(0, int64(w))), 0, w)) // marker <= applied <= last
	maxSize := verif.Uint64()
	r := verif.Uint64()
	verif.Assume(r >= 1 && r <= applied+1) // the server never asks beyond applied+1 (it answers 'leader behind' itself)

	sc := NewShardCache(cacheSize)
	if cacheLen > 0 {
		// cached run [s, s+cacheLen) with marker < s and s+cacheLen-1 <= applied (A6: compaction drops the cache)
		so := verif.Concretize(int(verif.IntRange(1, int64(w))), 1, w)
		verif.Assume(c+uint64(so)+uint64(cacheLen)-1 <= applied)
		sh, _ := sc.shardCache.Load(1)
		sh.put(l.ents[so-1 : so-1+cacheLen])
		verif.Assert(sh.len() == cacheLen, "harness: cache primed")
	} else {
		sc.shardCache.Load(1)
	}

	rng := dragonboat.LogRange{FirstIndex: r, LastIndex: applied + 1}
	simple := &Simple{LogQuerier: l}
	cached := &Cached{LogQuerier: l, ShardCache: sc}
	sres, serr := simple.QueryRaftLog(nil, 1, rng, maxSize)
	cres, cerr := cached.QueryRaftLog(nil, 1, rng, maxSize)

	verif.Assert(vhErrClass(serr) == vhErrClass(cerr), "cache does not change the error class")
	verif.Assert(vhErrClass(serr) != 3, "no unexpected reader error")
	if r <= c {
		verif.Assert(vhErrClass(serr) == 2, "compacted start index answered with log-ahead")
		verif.Cover("compacted")
	}
	if serr == nil && cerr == nil {
		vhExactPrefix(l, sres, r, applied, "uncached")
		vhExactPrefix(l, cres, r, applied, "cached")
		if r <= applied && r > c {
			verif.Assert(len(sres) > 0, "uncached: a non-empty range yields at least one entry")
			verif.Assert(len(cres) > 0, "cached: a non-empty range yields at least one entry")
			verif.Cover("nonempty-range")
		} else {
			verif.Assert(len(sres) == 0 && len(cres) == 0, "empty range yields nothing")
			verif.Cover("empty-range")
		}
	}
	// cache invariant afterwards
	sh, _ := sc.shardCache.Load(1)
	verif.Assert(sh.len() <= cacheSize, "cache never exceeds its size")
	for i, e := range sh.buffer {
		if i > 0 {
			verif.Assert(e.Index == sh.buffer[i-1].Index+1, "cache stays contiguous")
		}
		verif.Assert(e.Index > c && e.Index <= applied, "cache holds only live, applied indices")
		if e.Index > c && e.Index <= l.last() {
			verif.Assert(vhSameEntry(e, l.ents[e.Index-c-1]), "cache holds the log's own entries")
		}
	}
	verif.Cover("end")
}

func VH_C06_reader_vacuity(w int) {
	l := vhMakeLog(w)
	r := verif.Uint64()
	verif.Assume(r > l.marker && r <= l.last())
	simple := &Simple{LogQuerier: l}
	res, err := simple.QueryRaftLog(nil, 1, dragonboat.LogRange{FirstIndex: r, LastIndex: l.last() + 1}, verif.Uint64())
	verif.Assume(err == nil && len(res) > 0)
	verif.Assert(false, "vacuity")
}

// Exported access for harnesses of other packages (C05).
type VHLog = vhLog

func VHNewLog(marker uint64) *vhLog { return &vhLog{marker: marker} }

// Append adds the next entry (index marker+len+1).
func (l *vhLog) Append(typ raftpb.EntryType, cmd []byte) uint64 {
	idx := l.last() + 1
	l.ents = append(l.ents, raftpb.Entry{Term: 1, Index: idx, Type: typ, Cmd: cmd})
	return idx
}
