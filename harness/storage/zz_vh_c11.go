//go:build verif

package storage

import (
	"context"

	"github.com/jamf/regatta/internal/verif"
)

type vhWaiter struct {
	ch        <-chan error
	ctx       context.Context
	rev       uint64
	cancelled bool
	answered  bool // an answer has been seen
	ok        bool // ... and it was success
	done      bool // channel closed: further polls are meaningless
}

// vhPoll reads what has arrived on every waiter's channel (without blocking)
// and checks "at most one answer".
func vhPoll(ws []*vhWaiter) {
	for _, w := range ws {
		if w.answered {
			// a caller reads its channel exactly once; anything further that
			// arrives is a second answer (and stays in the channel's buffer)
			verif.Assert(w.done || len(w.ch) == 0, "a waiter gets at most one answer")
			continue
		}
		select {
		case err, open := <-w.ch:
			verif.Assert(!w.answered, "a waiter gets at most one answer")
			w.answered = true
			if !open {
				w.ok, w.done = true, true
				verif.Assert(!w.cancelled || true, "success answer")
			} else {
				verif.Assert(err != nil, "an error answer carries the context error")
				verif.Assert(w.cancelled, "only a cancelled / expired waiter is answered with an error")
			}
		default:
		}
	}
}

func vhUnansweredLive(ws []*vhWaiter) int {
	n := 0
	for _, w := range ws {
		if !w.answered && !w.cancelled {
			n++
		}
	}
	return n
}

// VH_C11_queue: an arbitrary queue state built from n waiters on one table
// (arbitrary revisions in heap order — so no reordering happens while they
// are added —, any subset cancelled), then k environment events, each one of
// {apply notification with an arbitrary revision, sweep tick, queue length
// request}. After every event: the queue still answers (no wedge), no waiter
// got two answers, live waiters at or below the notified revision are
// answered with success, no live unanswered waiter is lost, and cancelled
// waiters are answered with their error after a sweep.
func VH_C11_queue(n, k int) {
	q := NewNotificationQueue()
	go q.Run()
	verif.NoDeadlock("waiting, cancelled or timed-out callers never wedge the queue")
	var ws []*vhWaiter
	cnt := verif.Concretize(verif.Int(), 0, n)
	for i := 0; i < cnt; i++ {
		w := &vhWaiter{ctx: verif.NewContext(true), rev: verif.Uint64()}
		if i > 0 {
			verif.Assume(w.rev >= ws[(i-1)/2].rev) // heap order: added in array order
		}
		w.ch = q.Add(w.ctx, "t", w.rev)
		ws = append(ws, w)
	}
	for _, w := range ws {
		if verif.Bool() {
			verif.Cancel(w.ctx)
			w.cancelled = true
		}
	}
	verif.Assert(q.Len("t") == cnt, "every added waiter is queued")
	sweeps := 0
	for e := 0; e < k; e++ {
		switch verif.Choice(2) {
		case 0:
			r := verif.Uint64()
			q.Notify("t", r)
			l := q.Len("t") // barrier: the notification has been processed
			vhPoll(ws)
			for _, w := range ws {
				if !w.cancelled && w.rev <= r {
					verif.Assert(w.answered && w.ok, "a live waiter is answered with success once its revision has been applied")
				}
			}
			verif.Assert(l >= vhUnansweredLive(ws), "no live unanswered waiter is dropped from the queue")
			verif.Cover("notify")
		default:
			verif.Tick()
			l := q.Len("t") // barrier: the sweep (if the ticker fired) has been processed
			sweeps++
			vhPoll(ws)
			for _, w := range ws {
				if w.cancelled {
					verif.Assert(w.answered, "a cancelled waiter is answered by the next sweep")
				}
			}
			verif.Assert(l >= vhUnansweredLive(ws), "no live unanswered waiter is dropped from the queue")
			verif.Cover("sweep")
		}
	}
	// a final notification beyond every revision releases every live waiter
	q.Notify("t", ^uint64(0))
	q.Len("t")
	vhPoll(ws)
	for _, w := range ws {
		verif.Assert(w.answered, "every waiter has exactly one answer once it is due")
		if !w.cancelled {
			verif.Assert(w.ok, "a live waiter is answered with success")
		}
	}
	verif.Cover("end")
}

func VH_C11_vacuity() {
	q := NewNotificationQueue()
	go q.Run()
	ch := q.Add(verif.NewContext(true), "t", 5)
	q.Notify("t", 7)
	verif.Assume(q.Len("t") == 0)
	_, open := <-ch
	verif.Assume(!open)
	verif.Assert(false, "vacuity")
}
