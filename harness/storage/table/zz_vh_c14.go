//go:build verif

package table

import (
	"bytes"
	"encoding/json"
	"errors"
	"strconv"

	"github.com/jamf/regatta/internal/verif"
	serrors "github.com/jamf/regatta/storage/errors"
	"github.com/jamf/regatta/storage/kv"
	"github.com/lni/dragonboat/v4"
)

var vhNames = []string{"a", "b", "c"}

type vhCat struct {
	rs     *kv.RaftStore
	lf     *kv.LFSM
	nh     *dragonboat.NodeHost
	base   uint64
	seq    uint64          // value of the id sequence (tableIDsRangeStart if the record is absent)
	tables map[string]Table // catalogued tables
}

// vhArbCatalogue: an arbitrary catalogue over three names satisfying the
// invariant "the id sequence is >= every id in any record".
func vhArbCatalogue() *vhCat { return vhArbCatalogueN(len(vhNames)) }

// vhArbCatalogueN: only the last n of the three names may be present.
func vhArbCatalogueN(n int) *vhCat {
	rs, lf, nh, base := kv.VHNewStore()
	c := &vhCat{rs: rs, lf: lf, nh: nh, base: base, seq: tableIDsRangeStart, tables: map[string]Table{}}
	ver := func() uint64 {
		v := verif.Uint64()
		verif.Assume(v >= 1 && v < base)
		return v
	}
	switch verif.Choice(3) {
	case 1:
		c.seq = 10003
	case 2:
		c.seq = 10007
	}
	if c.seq != tableIDsRangeStart {
		kv.VHPutRaw(lf, kv.Pair{Key: sequenceKey, Value: strconv.FormatUint(c.seq, 10), Ver: ver()})
	}
	used := map[uint64]bool{}
	for _, n := range vhNames[len(vhNames)-n:] {
		if !verif.Bool() {
			continue
		}
		// an id handed out earlier: in (10000, seq], not shared with another table
		id := tableIDsRangeStart + 1 + uint64(verif.Concretize(verif.Int(), 0, 6))
		verif.Assume(id <= c.seq && !used[id])
		used[id] = true
		t := Table{Name: n, ClusterID: id}
		b, _ := json.Marshal(&t)
		kv.VHPutRaw(lf, kv.Pair{Key: storedTableName(n), Value: string(b), Ver: ver()})
		c.tables[n] = t
	}
	return c
}

func (c *vhCat) manager(node uint64) *Manager {
	m := vhManagerOn(c.rs, node)
	m.nh = c.nh
	return m
}

func (c *vhCat) maxID() uint64 {
	m := c.seq
	for _, t := range c.tables {
		if t.ClusterID > m {
			m = t.ClusterID
		}
	}
	return m
}

func (c *vhCat) checkListing(m *Manager) {
	tabs, err := m.GetTables()
	verif.Assert(err == nil, "listing succeeds")
	verif.Assert(len(tabs) == len(c.tables), "listing reflects exactly the created-and-not-deleted tables")
	for _, t := range tabs {
		w, ok := c.tables[t.Name]
		verif.Assert(ok && w.ClusterID == t.ClusterID, "listed table is catalogued with its id")
	}
	for _, n := range vhNames {
		at, err := m.GetTable(n)
		if w, ok := c.tables[n]; ok {
			verif.Assert(err == nil && at.Name == n && at.ClusterID == w.ClusterID, "lookup finds a catalogued table")
		} else {
			verif.Assert(errors.Is(err, serrors.ErrTableNotFound), "lookup of an unknown table reports not found")
		}
	}
}

// VH_C14_step: one create / delete on an arbitrary catalogue.
func VH_C14_step() {
	c := vhArbCatalogue()
	m := c.manager(1)
	name := vhNames[verif.Choice(3)]
	_, exists := c.tables[name]
	before := c.maxID()
	if verif.Bool() {
		t, err := m.createTable(name)
		if exists {
			verif.Assert(errors.Is(err, serrors.ErrTableExists), "creating an existing name fails")
			verif.Cover("create-exists")
		} else {
			verif.Assert(err == nil, "creating a new name succeeds (no concurrent catalogue change)")
			verif.Assert(t.Name == name && t.ClusterID > before, "new id is greater than every id assigned before")
			c.tables[name] = t
			c.seq = t.ClusterID
			verif.Cover("create-ok")
		}
	} else {
		err := m.DeleteTable(name)
		if exists {
			verif.Assert(err == nil, "deleting an existing table succeeds")
			delete(c.tables, name)
			verif.Cover("delete-ok")
		} else {
			verif.Assert(errors.Is(err, serrors.ErrTableNotFound), "deleting an unknown table fails")
		}
	}
	c.checkListing(m)
	// invariant preserved: the stored sequence still dominates every id
	seq, ok := kv.VHGetRaw(c.lf, sequenceKey)
	cur := tableIDsRangeStart
	if ok {
		cur, _ = strconv.ParseUint(seq.Value, 10, 64)
	}
	for _, t := range c.tables {
		verif.Assert(t.ClusterID <= cur, "id sequence dominates every catalogued id (ids are never reused)")
	}
	verif.Cover("end")
}

// VH_C14_recreate: delete then recreate under the same name gets a fresh, larger id.
func VH_C14_recreate() {
	c := vhArbCatalogue()
	m := c.manager(1)
	name := vhNames[verif.Choice(3)]
	old, exists := c.tables[name]
	verif.Assume(exists)
	before := c.maxID()
	verif.Assert(m.DeleteTable(name) == nil, "delete succeeds")
	t, err := m.createTable(name)
	verif.Assert(err == nil && t.ClusterID > before && t.ClusterID != old.ClusterID, "recreated table gets an id never used before")
	verif.Cover("end")
}

// VH_C14_race: two nodes create tables concurrently — the same name, or two
// different names — under every interleaving of their store accesses: of
// racing creations of one name at most one succeeds; whatever succeeds got
// an id greater than every id assigned before and different from the other's.
func VH_C14_race(sameName int) {
	c := vhArbCatalogueN(1) // "a" and "b" are free; another table may exist
	_, bTaken := c.tables["b"]
	verif.Assume(!bTaken)
	n1, n2 := "a", "b"
	if sameName != 0 {
		n2 = "a"
	}
	before := c.maxID()
	m1, m2 := c.manager(1), c.manager(2)
	verif.YieldAtStore(c.nh, true)
	type res struct {
		t   Table
		err error
	}
	d1, d2 := make(chan res, 1), make(chan res, 1)
	go func() { t, err := m1.createTable(n1); d1 <- res{t, err} }()
	go func() { t, err := m2.createTable(n2); d2 <- res{t, err} }()
	r1, r2 := <-d1, <-d2
	verif.YieldAtStore(c.nh, false)
	if sameName != 0 {
		verif.Assert(!(r1.err == nil && r2.err == nil), "of racing creations of one name at most one succeeds")
	}
	if r1.err == nil {
		verif.Assert(r1.t.ClusterID > before, "a created table gets an id greater than every id assigned before")
		at, err := m1.GetTable(n1)
		verif.Assert(err == nil && at.ClusterID == r1.t.ClusterID, "the created table is the catalogued one")
	}
	if r2.err == nil {
		verif.Assert(r2.t.ClusterID > before, "a created table gets an id greater than every id assigned before")
	}
	if r1.err == nil && r2.err == nil {
		verif.Assert(r1.t.ClusterID != r2.t.ClusterID, "two tables never share a shard id")
		verif.Cover("both-win")
	}
	if r1.err == nil || r2.err == nil {
		verif.Cover("one-wins")
	}
	verif.Cover("end")
}

// VH_C14_diff: reconciliation starts exactly the catalogued shard ids that
// are not running and stops exactly the running table shards that are not catalogued.
func VH_C14_diff(nt, nr int) {
	tables := map[string]Table{}
	cat := map[uint64]bool{}
	for i := 0; i < nt; i++ {
		t := Table{Name: vhNames[i], ClusterID: verif.Uint64()}
		if verif.Bool() {
			t.RecoverID = verif.Uint64()
		}
		tables[t.Name] = t
		if t.ClusterID != 0 {
			cat[t.ClusterID] = true
		}
		if t.RecoverID != 0 {
			cat[t.RecoverID] = true
		}
	}
	var running []dragonboat.ShardInfo
	run := map[uint64]bool{}
	for i := 0; i < nr; i++ {
		id := verif.Uint64()
		running = append(running, dragonboat.ShardInfo{ShardID: id})
		run[id] = true
	}
	verif.PermuteMaps(true)
	start, stop := diffTables(tables, running)
	verif.PermuteMaps(false)
	for id := range start {
		verif.Assert(cat[id] && !run[id] && id > tableIDsRangeStart, "only catalogued, not running table shards are started")
	}
	for id := range cat {
		if !run[id] && id > tableIDsRangeStart {
			_, ok := start[id]
			verif.Assert(ok, "every catalogued shard that is not running is started")
			verif.Cover("start")
		}
	}
	stopSet := map[uint64]bool{}
	for _, id := range stop {
		verif.Assert(run[id] && !cat[id] && id > tableIDsRangeStart, "only running table shards that are not catalogued are stopped")
		stopSet[id] = true
	}
	for id := range run {
		if !cat[id] && id > tableIDsRangeStart {
			verif.Assert(stopSet[id], "every running table shard that is no longer catalogued is stopped")
			verif.Cover("stop")
		}
	}
	verif.Cover("end")
}

// VH_C14_reconcile: the real Manager.reconcile on a node: catalogue of up to
// two tables with ids (and optional recovery ids, as during a restore) from a
// small domain, an arbitrary set of running shards from the same domain.
// Afterwards exactly the catalogued ids that were not running have been
// started (each once, under its own id) and exactly the running table shards
// that are not catalogued have been stopped. Engine only.
func VH_C14_reconcile() {
	rs, lf, nh, base := kv.VHNewStore()
	m := vhManagerOn(rs, 1)
	m.nh = nh
	cat := map[uint64]bool{}
	for _, n := range vhNames[:2] {
		if !verif.Bool() {
			continue
		}
		t := Table{Name: n, ClusterID: tableIDsRangeStart + 1 + uint64(verif.Choice(4))}
		if verif.Bool() {
			t.RecoverID = tableIDsRangeStart + 1 + uint64(verif.Choice(4))
			if verif.Bool() {
				t.ClusterID = 0 // a restore of a table that did not exist before
			}
		}
		b, _ := json.Marshal(&t)
		v := verif.Uint64()
		verif.Assume(v >= 1 && v < base)
		kv.VHPutRaw(lf, kv.Pair{Key: storedTableName(n), Value: string(b), Ver: v})
		if t.ClusterID != 0 {
			cat[t.ClusterID] = true
		}
		if t.RecoverID != 0 {
			cat[t.RecoverID] = true
		}
	}
	run := map[uint64]bool{}
	var running []uint64
	for i := uint64(1); i <= 4; i++ {
		if verif.Bool() {
			run[tableIDsRangeStart+i] = true
			running = append(running, tableIDsRangeStart+i)
		}
	}
	verif.RunShardIDs(nh, running)

	err := m.reconcile()
	verif.Assert(err == nil, "reconcile succeeds")
	started, stopped := map[uint64]int{}, map[uint64]int{}
	for _, id := range verif.StartedShards(nh) {
		started[id]++
		verif.Assert(cat[id] && !run[id], "reconcile starts only catalogued shards that are not running")
	}
	for _, id := range verif.StoppedShards(nh) {
		stopped[id]++
		verif.Assert(run[id] && !cat[id], "reconcile stops only running table shards that are not catalogued")
	}
	for i := uint64(1); i <= 4; i++ {
		id := tableIDsRangeStart + i
		if cat[id] && !run[id] {
			verif.Assert(started[id] == 1, "every catalogued shard (table or recovery id) that is not running is started once")
			verif.Cover("start")
		}
		if run[id] && !cat[id] {
			verif.Assert(stopped[id] == 1, "every running table shard that is not catalogued is stopped once")
			verif.Cover("stop")
		}
	}
	verif.Cover("end")
}

func VH_C14_vacuity() {
	c := vhArbCatalogue()
	m := c.manager(1)
	_, exists := c.tables["a"]
	verif.Assume(!exists)
	_, err := m.createTable("a")
	verif.Assume(err == nil)
	verif.Assert(false, "vacuity")
}

type vhSnapCapture struct{ chunks [][]byte }

func (c *vhSnapCapture) Write(p []byte) (int, error) {
	c.chunks = append(c.chunks, p)
	return len(p), nil
}

// VH_C14_snapshot: a replica of the catalogue store that holds an arbitrary
// stale catalogue is caught up by a snapshot of an arbitrary source
// catalogue: afterwards a manager on that replica lists and finds exactly the
// source's tables (deleted names are gone, free names can be created).
func VH_C14_snapshot() {
	src := vhArbCatalogueN(2)
	rs2, lf2, base2 := kv.VHNewStoreOn(src.nh, 2)
	verif.Assume(base2 > 1)
	for i, n := range vhNames[len(vhNames)-2:] {
		if !verif.Bool() {
			continue
		}
		t := Table{Name: n, ClusterID: tableIDsRangeStart + 5 + uint64(i)}
		b, _ := json.Marshal(&t)
		kv.VHPutRaw(lf2, kv.Pair{Key: storedTableName(n), Value: string(b), Ver: 1})
		if _, ok := src.tables[n]; !ok {
			verif.Cover("stale-name")
		}
	}
	ctx, err := src.lf.PrepareSnapshot()
	verif.Assert(err == nil, "prepare succeeds")
	w := &vhSnapCapture{}
	verif.Assert(src.lf.SaveSnapshot(ctx, w, nil, nil) == nil && len(w.chunks) == 1, "save succeeds")
	if len(w.chunks) != 1 {
		return
	}
	verif.Assert(lf2.RecoverFromSnapshot(bytes.NewReader(w.chunks[0]), nil, nil) == nil, "install succeeds")
	m := vhManagerOn(rs2, 2)
	m.nh = src.nh
	src.checkListing(m)
	verif.Cover("end")
}

// names whose catalogue key would fall below another record of the
// catalogue: a nested name, another table's lease record, the id sequence.
var vhNestedNames = []string{"a/b", "a/lease", "sys/idseq"}

// VH_C14_names: creating a table under a name containing '/' on an arbitrary
// catalogue (optionally after table "a" was leased). Either the creation
// succeeds and the table is catalogued like any other (listed, found by
// lookup, fresh id), or it fails and nothing changed.
func VH_C14_names() {
	c := vhArbCatalogue()
	m := c.manager(1)
	name := vhNestedNames[verif.Choice(3)]
	before := c.maxID()
	seq0, ok0 := kv.VHGetRaw(c.lf, sequenceKey)
	rec0, rok0 := kv.VHGetRaw(c.lf, storedTableName(name))
	t, err := m.createTable(name)
	if err == nil {
		verif.Assert(t.Name == name && t.ClusterID > before, "new id is greater than every id assigned before")
		at, gerr := m.GetTable(name)
		verif.Assert(gerr == nil && at.Name == name && at.ClusterID == t.ClusterID, "lookup finds the created table")
		c.tables[name] = t
		c.seq = t.ClusterID
		verif.Cover("created")
	} else {
		rec1, rok1 := kv.VHGetRaw(c.lf, storedTableName(name))
		verif.Assert(rok0 == rok1 && (!rok0 || (rec0.Value == rec1.Value && rec0.Ver == rec1.Ver)), "a failed creation leaves no record behind")
		seq1, ok1 := kv.VHGetRaw(c.lf, sequenceKey)
		verif.Assert(ok0 == ok1 && (!ok0 || seq0.Value == seq1.Value), "a rejected name does not consume an id")
		verif.Cover("rejected")
	}
	c.checkListing(m)
	seq, ok := kv.VHGetRaw(c.lf, sequenceKey)
	cur := tableIDsRangeStart
	if ok {
		var perr error
		cur, perr = strconv.ParseUint(seq.Value, 10, 64)
		verif.Assert(perr == nil, "the id sequence record is still a number")
	}
	for _, t := range c.tables {
		verif.Assert(t.ClusterID <= cur, "id sequence dominates every catalogued id (ids are never reused)")
	}
	verif.Cover("end")
}
