//go:build verif

package fsm

import (
	"bytes"
	"io"

	"github.com/cockroachdb/pebble/vfs"
	"github.com/jamf/regatta/internal/verif"
	"github.com/jamf/regatta/regattapb"
	"github.com/jamf/regatta/util/iter"
	sm "github.com/lni/dragonboat/v4/statemachine"
)

func vhSnapFSM(fs vfs.FS, dirname string, rt int) *FSM {
	f := vhFSMOn(fs, dirname)
	f.recoveryType = SnapshotRecoveryType(rt)
	return f
}

func vhOpenedOn(fs vfs.FS, dirname string, rt int) *FSM {
	f := vhSnapFSM(fs, dirname, rt)
	_, err := f.Open(nil)
	verif.Assume(err == nil)
	return f
}

// vhSaved: a saver replica of format rt in an arbitrary state (both
// bookkeeping keys present), a prepared snapshot, optionally writes applied
// between prepare and save, and the saved stream. Returns the state at prepare.
func vhSaved(rt, maxN int, racingWrites bool) (*vhRef, []byte) {
	memA := vfs.NewMem()
	saver := vhOpenedOn(memA, "/a/t-10001", rt)
	ref := vhArbitraryStateSys(saver.pebble.Load(), maxN, 1, -1, true)
	ctx, err := saver.PrepareSnapshot()
	verif.Assert(err == nil, "prepare succeeds")
	if racingWrites && verif.Bool() {
		// applied after prepare, while the snapshot is being streamed
		idx := ref.index + 1
		verif.Assume(idx != 0)
		_, err := saver.Update([]sm.Entry{
			vhEntry(idx, &regattapb.Command{Table: []byte("t"), Type: regattapb.Command_PUT, Kv: &regattapb.KeyValue{Key: verif.Bytes(1), Value: verif.Bytes(1)}}),
		})
		verif.Assert(err == nil, "apply during save succeeds")
		if verif.Bool() {
			_, err = saver.Update([]sm.Entry{
				vhEntry(idx+1, &regattapb.Command{Table: []byte("t"), Type: regattapb.Command_DELETE, Kv: &regattapb.KeyValue{Key: []byte{0}}, RangeEnd: []byte{0}}),
			})
			verif.Assert(err == nil, "range delete during save succeeds")
		}
		verif.Cover("raced")
	}
	var buf bytes.Buffer
	err = saver.SaveSnapshot(ctx, &buf, make(chan struct{}))
	verif.Assert(err == nil, "save succeeds")
	return ref, buf.Bytes()
}

func vhCheckInstalled(f *FSM, ref *vhRef, what string) {
	vhWholeTable(f, ref, what)
	verif.Assert(vhReadIndex(f, false) == ref.index, what+": applied index of the saver at prepare")
	verif.Assert(vhReadIndex(f, true) == ref.leader, what+": leader index of the saver at prepare")
}

// VH_C08_transfer: a snapshot saved by a replica of format saverT and
// recovered by a replica configured with format recvT (which holds arbitrary
// other content) reproduces exactly content, applied index and leader index
// the saver had at prepare, whatever was applied while saving; the installed
// state is what a restart of the receiver opens.
func VH_C08_transfer(saverT, recvT, maxN int) {
	verif.SSTCuts(false)
	ref, stream := vhSaved(saverT, maxN, true)

	memB := vfs.NewMem()
	recv := vhOpenedOn(memB, "/b/t-10001", recvT)
	_ = vhArbitraryStateSys(recv.pebble.Load(), 1, 1, -1, true)
	err := recv.RecoverFromSnapshot(bytes.NewReader(stream), make(chan struct{}))
	verif.Assert(err == nil, "recover succeeds")
	if err != nil {
		return
	}
	vhCheckInstalled(recv, ref, "installed state")
	verif.Assert(recv.Close() == nil, "close after install")
	re := vhSnapFSM(memB, "/b/t-10001", recvT)
	idx, err := re.Open(nil)
	verif.Assert(err == nil && idx == ref.index, "a restart opens the installed state")
	if err == nil {
		vhCheckInstalled(re, ref, "state after restart")
	}
	verif.Cover("end")
}

// VH_C08_cuts: the sstable stream is cut into several tables at arbitrary
// positions (EstimatedSize returns arbitrary values). Engine only: natively
// small tables never reach the size threshold.
func VH_C08_cuts(maxN int) {
	verif.SSTCuts(true)
	ref, stream := vhSaved(0, maxN, false)
	recv := vhOpenedOn(vfs.NewMem(), "/b/t-10001", 0)
	_ = vhArbitraryStateSys(recv.pebble.Load(), 1, 1, -1, true)
	err := recv.RecoverFromSnapshot(bytes.NewReader(stream), make(chan struct{}))
	verif.Assert(err == nil, "recover of a multi-table stream succeeds")
	if err == nil {
		vhCheckInstalled(recv, ref, "installed state (multi-table stream)")
	}
	verif.Cover("end")
}

type vhStopWriter struct {
	w    io.Writer
	n, k int
	stop chan struct{}
}

func (s *vhStopWriter) Write(p []byte) (int, error) {
	s.n++
	if s.n == s.k {
		close(s.stop)
	}
	return s.w.Write(p)
}

type vhStopReader struct {
	r    io.Reader
	n, k int
	stop chan struct{}
}

func (s *vhStopReader) Read(p []byte) (int, error) {
	s.n++
	if s.n == s.k {
		close(s.stop)
	}
	return s.r.Read(p)
}

// VH_C08_stop: the stop signal arrives at an arbitrary point of save or of
// recover. A stopped recover leaves the previous state completely in place
// and usable; a later complete recover installs the snapshot.
func VH_C08_stop(rt, maxN int) {
	verif.SSTCuts(false)
	memA := vfs.NewMem()
	saver := vhOpenedOn(memA, "/a/t-10001", rt)
	ref := vhArbitraryStateSys(saver.pebble.Load(), maxN, 1, -1, true)
	ctx, err := saver.PrepareSnapshot()
	verif.Assert(err == nil, "prepare succeeds")
	var buf bytes.Buffer
	sw := &vhStopWriter{w: &buf, k: verif.Concretize(verif.Int(), 0, 6), stop: make(chan struct{})}
	err = saver.SaveSnapshot(ctx, sw, sw.stop)
	verif.Assert(err == nil || err == sm.ErrSnapshotStopped, "save ends normally or reports the stop")
	vhCheckInstalled(saver, ref, "saver after a (stopped) save")
	if err != nil {
		verif.Cover("save-stopped")
		// a new snapshot can be taken afterwards
		ctx, err = saver.PrepareSnapshot()
		verif.Assert(err == nil, "prepare after a stopped save succeeds")
		buf.Reset()
		verif.Assert(saver.SaveSnapshot(ctx, &buf, make(chan struct{})) == nil, "save after a stopped save succeeds")
	}
	stream := buf.Bytes()

	memB := vfs.NewMem()
	recv := vhOpenedOn(memB, "/b/t-10001", rt)
	old := vhArbitraryStateSys(recv.pebble.Load(), 1, 1, -1, true)
	sr := &vhStopReader{r: bytes.NewReader(stream), k: verif.Concretize(verif.Int(), 0, 8), stop: make(chan struct{})}
	err = recv.RecoverFromSnapshot(sr, sr.stop)
	verif.Assert(err == nil || err == sm.ErrSnapshotStopped, "recover ends normally or reports the stop")
	if err != nil {
		verif.Cover("recover-stopped")
		vhCheckInstalled(recv, old, "receiver after a stopped recover (previous state)")
		err = recv.RecoverFromSnapshot(bytes.NewReader(stream), make(chan struct{}))
		verif.Assert(err == nil, "a complete recover after a stopped one succeeds")
	}
	if err == nil {
		vhCheckInstalled(recv, ref, "receiver after a complete recover")
	}
	verif.Cover("end")
}

// VH_C08_crash: the receiver (strict file system, durable previous state)
// crashes at an arbitrary file-system operation of the install, or right
// after it. Reopening succeeds and shows the previous state or the snapshot,
// each complete with its own indices.
func VH_C08_crash(rt int) {
	verif.SSTCuts(false)
	ref, stream := vhSaved(rt, 1, false)
	verif.Assume(ref.index != 3)

	mem := vfs.NewStrictMem()
	vhDurableDir(mem, "/data")
	vhDurableDir(mem, "/data/host")
	old := &vhRef{keys: [][]byte{[]byte("a")}, vals: [][]byte{[]byte("1")}, index: 3, hasIndex: true}
	{
		f := vhSnapFSM(&vhCrashFS{FS: mem}, vhNodeDir, rt)
		_, err := f.Open(nil)
		verif.Assume(err == nil)
		_, err = f.Update([]sm.Entry{vhEntry(3, &regattapb.Command{Table: []byte("t"), Type: regattapb.Command_PUT, Kv: &regattapb.KeyValue{Key: []byte("a"), Value: []byte("1")}})})
		verif.Assume(err == nil && f.Sync() == nil && f.Close() == nil)
		vhDurableDir(mem, vhNodeDir)
		names, _ := mem.List(vhNodeDir)
		for _, n := range names {
			if fi, err := mem.Stat(vhNodeDir + "/" + n); err == nil && fi.IsDir() {
				vhDurableDir(mem, vhNodeDir+"/"+n)
			}
		}
	}
	// the crash point: none, or the occ-th (1..3) file-system operation of a kind
	// on a class of path (addressing that does not depend on how many files a
	// database directory holds: natively a checkpoint has several, the model one)
	cfs := &vhCrashFS{FS: mem}
	if verif.Bool() {
		cfs.sel = vhCrashOps[verif.Choice(len(vhCrashOps))] + ":" + vhCrashClasses[verif.Choice(len(vhCrashClasses))]
		cfs.occ = 1 + verif.Choice(3)
	}
	installed := false
	var f *FSM
	crashed := vhUntilCrash(func() {
		f = vhSnapFSM(cfs, vhNodeDir, rt)
		idx, err := f.Open(nil)
		verif.Assert(err == nil && idx == 3, "reopen before the install")
		err = f.RecoverFromSnapshot(bytes.NewReader(stream), make(chan struct{}))
		verif.Assert(err == nil, "install succeeds")
		installed = err == nil
	})
	if crashed {
		verif.Cover("crash-during")
	} else {
		verif.Cover("crash-after")
	}
	vhKill(mem, cfs, f)

	f2 := vhSnapFSM(&vhCrashFS{FS: mem}, vhNodeDir, rt)
	idx, err := f2.Open(nil)
	verif.Assert(err == nil, "reopening after a crash around an install succeeds")
	if err != nil {
		return
	}
	verif.Assert(idx == 3 || idx == ref.index, "the reopened replica is at the previous or at the snapshot's index")
	if installed {
		verif.Assert(idx == ref.index, "a completed install survives a crash")
	}
	if idx == ref.index {
		vhCheckInstalled(f2, ref, "after crash: snapshot state")
	} else {
		vhWholeTable(f2, old, "after crash: previous state")
	}
	verif.Cover("end")
}

// VH_C08_readacross: a streaming range read obtained before an install and
// consumed after it delivers the old state, the new state, or ends — it never
// panics (which would take the whole process down).
func VH_C08_readacross(rt int, pulls int) {
	verif.SSTCuts(false)
	ref, stream := vhSaved(rt, 1, false)
	recv := vhOpenedOn(vfs.NewMem(), "/b/t-10001", rt)
	old := vhArbitraryStateSys(recv.pebble.Load(), 1, 1, -1, true)

	out, err := recv.Lookup(IteratorRequest{RangeOp: &regattapb.RequestOp_Range{Key: []byte{0}, RangeEnd: wildcard}})
	verif.Assert(err == nil, "iterator lookup succeeds")
	seq := out.(iter.Seq[*regattapb.ResponseOp_Range])

	err = recv.RecoverFromSnapshot(bytes.NewReader(stream), make(chan struct{}))
	verif.Assume(err == nil)

	var got []*regattapb.KeyValue
	panicked := true
	func() {
		defer func() {
			if panicked {
				_ = recover()
			}
		}()
		seq(func(r *regattapb.ResponseOp_Range) bool {
			got = append(got, r.Kvs...)
			return true
		})
		panicked = false
	}()
	verif.Assert(!panicked, "a streaming range read obtained before a snapshot install and first pulled after it does not panic")
	if !panicked {
		verif.Assert(vhKVsAre(got, old) || vhKVsAre(got, ref), "read across install: the old or the new state, nothing else")
	}
	_ = pulls
	verif.Cover("end")
}

func vhKVsAre(got []*regattapb.KeyValue, r *vhRef) bool {
	if len(got) != len(r.keys) {
		return false
	}
	for i := range got {
		if !bytes.Equal(got[i].Key, r.keys[i]) || !bytes.Equal(got[i].Value, r.vals[i]) {
			return false
		}
	}
	return true
}

func VH_C08_vacuity() {
	verif.SSTCuts(false)
	_, stream := vhSaved(0, 1, false)
	verif.Assume(len(stream) > 8)
	verif.Assert(false, "vacuity")
}

// VH_C08_overlap: two prepared snapshots alive at once (dragonboat may
// prepare the next one while the previous one is still being streamed), with
// a write between the two prepares. Each saved stream reproduces the state of
// ITS prepare; saving one does not disturb the other.
func VH_C08_overlap(rt int) {
	verif.SSTCuts(false)
	saver := vhOpenedOn(vfs.NewMem(), "/a/t-10001", rt)
	ref1 := vhArbitraryStateSys(saver.pebble.Load(), 1, 1, -1, true)
	verif.Assume(ref1.index < 1<<62)
	ctx1, err := saver.PrepareSnapshot()
	verif.Assert(err == nil, "first prepare succeeds")
	k, v := verif.Bytes(1), verif.Bytes(1)
	_, err = saver.Update([]sm.Entry{vhEntry(ref1.index+1, &regattapb.Command{Table: []byte("t"), Type: regattapb.Command_PUT, Kv: &regattapb.KeyValue{Key: k, Value: v}})})
	verif.Assert(err == nil, "apply between the prepares succeeds")
	ref2 := ref1.clone()
	ref2.put(k, v)
	ref2.index = ref1.index + 1
	ctx2, err := saver.PrepareSnapshot()
	verif.Assert(err == nil, "second prepare succeeds")
	var b1, b2 bytes.Buffer
	verif.Assert(saver.SaveSnapshot(ctx1, &b1, make(chan struct{})) == nil, "saving the first snapshot succeeds")
	verif.Assert(saver.SaveSnapshot(ctx2, &b2, make(chan struct{})) == nil, "saving the second snapshot succeeds")
	for i, c := range []struct {
		stream []byte
		ref    *vhRef
	}{{b1.Bytes(), ref1}, {b2.Bytes(), ref2}} {
		recv := vhOpenedOn(vfs.NewMem(), "/b/t-10001", rt)
		err := recv.RecoverFromSnapshot(bytes.NewReader(c.stream), make(chan struct{}))
		verif.Assert(err == nil, "recover succeeds")
		if err == nil {
			what := "first snapshot"
			if i == 1 {
				what = "second snapshot"
			}
			vhCheckInstalled(recv, c.ref, what+": the state of its own prepare")
		}
	}
	verif.Cover("end")
}
