//go:build verif

package fsm

import (
	"bytes"
	"encoding/binary"

	"github.com/cockroachdb/pebble"
	"github.com/cockroachdb/pebble/vfs"
	"github.com/jamf/regatta/internal/verif"
	rp "github.com/jamf/regatta/pebble"
	"github.com/jamf/regatta/regattapb"
	sm "github.com/lni/dragonboat/v4/statemachine"
	"go.uber.org/zap"
)

// vhOpenDB opens a table database through regatta's own OpenDB/DefaultOptions
// (engine: Pebble model M1; native: real Pebble on an in-memory FS).
func vhOpenDB() *pebble.DB {
	db, err := rp.OpenDB("/vh-db", rp.WithFS(vfs.NewMem()))
	if err != nil {
		panic(err)
	}
	return db
}

func vhFSM(db *pebble.DB, applied func(uint64)) *FSM {
	if applied == nil {
		applied = func(uint64) {}
	}
	f := &FSM{tableName: "t", clusterID: 10001, nodeID: 1, log: zap.NewNop().Sugar(), metrics: newMetrics("t", 10001), appliedFunc: applied}
	f.pebble.Store(db)
	return f
}

// vhRef is the specification: a plain sorted map from non-empty byte-string
// keys to byte-string values, applied to one command after another.
type vhRef struct {
	keys, vals [][]byte
	index      uint64
	hasIndex   bool
	leader     uint64
	hasLeader  bool
}

func (r *vhRef) find(k []byte) (int, bool) {
	for i := range r.keys {
		c := bytes.Compare(r.keys[i], k)
		if c == 0 {
			return i, true
		}
		if c > 0 {
			return i, false
		}
	}
	return len(r.keys), false
}

func (r *vhRef) get(k []byte) ([]byte, bool) {
	if i, ok := r.find(k); ok {
		return r.vals[i], true
	}
	return nil, false
}

func (r *vhRef) put(k, v []byte) {
	i, ok := r.find(k)
	if ok {
		r.vals[i] = v
		return
	}
	r.keys = append(r.keys[:i:i], append([][]byte{k}, r.keys[i:]...)...)
	r.vals = append(r.vals[:i:i], append([][]byte{v}, r.vals[i:]...)...)
}

func (r *vhRef) del(k []byte) {
	if i, ok := r.find(k); ok {
		r.keys = append(r.keys[:i:i], r.keys[i+1:]...)
		r.vals = append(r.vals[:i:i], r.vals[i+1:]...)
	}
}

// inRange: a <= k < b, with b == "\x00" meaning no upper bound.
func vhInRange(k, a, b []byte) bool {
	if bytes.Compare(k, a) < 0 {
		return false
	}
	if bytes.Equal(b, wildcard) {
		return true
	}
	return bytes.Compare(k, b) < 0
}

func (r *vhRef) rng(a, b []byte) (keys, vals [][]byte) {
	for i := range r.keys {
		if vhInRange(r.keys[i], a, b) {
			keys = append(keys, r.keys[i])
			vals = append(vals, r.vals[i])
		}
	}
	return
}

func (r *vhRef) delRange(a, b []byte) {
	var nk, nv [][]byte
	for i := range r.keys {
		if !vhInRange(r.keys[i], a, b) {
			nk = append(nk, r.keys[i])
			nv = append(nv, r.vals[i])
		}
	}
	r.keys, r.vals = nk, nv
}

func (r *vhRef) clone() *vhRef {
	c := *r
	c.keys = append([][]byte(nil), r.keys...)
	c.vals = append([][]byte(nil), r.vals...)
	return &c
}

func vhU64(x uint64) []byte {
	b := make([]byte, 8)
	binary.LittleEndian.PutUint64(b, x)
	return b
}

// vhArbitraryState loads an arbitrary table content into db: 0..maxN pairs
// with keys of 1..maxK and values of 0..maxV arbitrary bytes (ascending, so
// every content of that shape is covered exactly once), and arbitrary
// bookkeeping (applied index, optional leader index).
func vhArbitraryState(db *pebble.DB, maxN, maxK, maxV int) *vhRef {
	return vhArbitraryStateSys(db, maxN, maxK, maxV, false)
}

// vhArbitraryStateSys: with bothSys the two bookkeeping keys are always
// present (with arbitrary values), otherwise their presence is arbitrary too.
func vhArbitraryStateSys(db *pebble.DB, maxN, maxK, maxV int, bothSys bool) *vhRef {
	r := &vhRef{}
	n := verif.Concretize(verif.Int(), 0, maxN)
	for i := 0; i < n; i++ {
		k := verif.Bytes(verif.Concretize(verif.Int(), 1, maxK))
		var v []byte
		if maxV < 0 {
			v = verif.Bytes(-maxV) // fixed length, arbitrary content
		} else {
			v = verif.Bytes(verif.Concretize(verif.Int(), 0, maxV))
		}
		if i > 0 {
			verif.Assume(bytes.Compare(r.keys[i-1], k) < 0)
		}
		if err := db.Set(vhEnc(k), v, pebble.NoSync); err != nil {
			panic(err)
		}
		r.keys = append(r.keys, k)
		r.vals = append(r.vals, v)
	}
	if bothSys || verif.Bool() {
		r.hasIndex, r.index = true, verif.Uint64()
		if err := db.Set(sysLocalIndex, vhU64(r.index), pebble.NoSync); err != nil {
			panic(err)
		}
		if bothSys || verif.Bool() {
			r.hasLeader, r.leader = true, verif.Uint64()
			if err := db.Set(sysLeaderIndex, vhU64(r.leader), pebble.NoSync); err != nil {
				panic(err)
			}
		}
	}
	return r
}

// vhIndex: a log index (>= 1). wide: any 64-bit value (ten varint length classes,
// each explored); otherwise 1..64 (one class) — used where the index only
// travels through the payload and is not the subject.
func vhIndex(wide bool) uint64 {
	if !wide {
		return 1 + uint64(verif.Byte()&0x3f)
	}
	x := verif.Uint64()
	verif.Assume(x != 0) // Raft log indices start at 1
	return x
}

// vhArbKey: a key/bound of 0..maxLen arbitrary bytes; length 0 yields an
// empty but non-nil slice.
func vhArbKey(minLen, maxLen int) []byte {
	return verif.Bytes(verif.Concretize(verif.Int(), minLen, maxLen))
}

func vhEntry(index uint64, cmd *regattapb.Command) sm.Entry {
	b, err := cmd.MarshalVT()
	if err != nil {
		panic(err)
	}
	return sm.Entry{Index: index, Cmd: b}
}

func vhResult(e sm.Entry) *regattapb.CommandResult {
	res := &regattapb.CommandResult{}
	if len(e.Result.Data) > 0 {
		if err := res.UnmarshalVT(e.Result.Data); err != nil {
			panic(err)
		}
	}
	return res
}

func vhSameKVs(got []*regattapb.KeyValue, keys, vals [][]byte, withValues bool, what string) {
	verif.Assert(len(got) == len(keys), what+": number of pairs")
	if len(got) != len(keys) {
		return
	}
	for i := range got {
		verif.Assert(bytes.Equal(got[i].Key, keys[i]), what+": keys, in ascending order")
		if withValues {
			verif.Assert(bytes.Equal(got[i].Value, vals[i]), what+": values")
		} else {
			verif.Assert(len(got[i].Value) == 0, what+": no values when not requested")
		}
	}
}

// vhCheckSingle: a single-key read of an arbitrary key against the reference map.
func vhCheckSingle(f *FSM, r *vhRef, maxK int) {
	p := vhArbKey(1, maxK)
	keysOnly, countOnly := verif.Bool(), verif.Bool()
	verif.Assume(!(keysOnly && countOnly))
	out, err := f.Lookup(&regattapb.RequestOp_Range{Key: p, KeysOnly: keysOnly, CountOnly: countOnly})
	verif.Assert(err == nil, "single read succeeds")
	resp := out.(*regattapb.ResponseOp_Range)
	want, ok := r.get(p)
	if !ok {
		verif.Assert(resp.Count == 0 && len(resp.Kvs) == 0 && !resp.More, "single read of an absent key is empty")
	} else {
		verif.Assert(resp.Count == 1 && !resp.More, "single read of a present key counts 1")
		if countOnly {
			verif.Assert(len(resp.Kvs) == 0, "count-only single read returns no pair")
		} else {
			vhSameKVs(resp.Kvs, [][]byte{p}, [][]byte{want}, !keysOnly, "single read")
		}
	}
}

// vhCheckRange: a range read [a,b) with arbitrary bounds (b possibly the
// wildcard, empty, or <= a) and flags against the reference map.
func vhCheckRange(f *FSM, r *vhRef, maxK int) {
	a, b := vhArbKey(0, maxK), vhArbKey(0, maxK)
	keysOnly, countOnly := verif.Bool(), verif.Bool()
	verif.Assume(!(keysOnly && countOnly))
	out, err := f.Lookup(&regattapb.RequestOp_Range{Key: a, RangeEnd: b, KeysOnly: keysOnly, CountOnly: countOnly})
	verif.Assert(err == nil, "range read succeeds")
	resp := out.(*regattapb.ResponseOp_Range)
	wk, wv := r.rng(a, b)
	verif.Assert(resp.Count == int64(len(wk)), "range read count")
	verif.Assert(!resp.More, "unlimited small range read is complete")
	if countOnly {
		verif.Assert(len(resp.Kvs) == 0, "count-only range read returns no pair")
	} else {
		vhSameKVs(resp.Kvs, wk, wv, !keysOnly, "range read")
	}
}

// vhCheckIndex: the bookkeeping reads.
func vhCheckIndex(f *FSM, r *vhRef) {
	li, err := f.Lookup(LocalIndexRequest{})
	verif.Assert(err == nil, "local index read succeeds")
	if r.hasIndex {
		verif.Assert(li.(*IndexResponse).Index == r.index, "applied index as recorded")
	} else {
		verif.Assert(li.(*IndexResponse).Index == 0, "no applied index recorded reads 0")
	}
	le, err := f.Lookup(LeaderIndexRequest{})
	verif.Assert(err == nil, "leader index read succeeds")
	if r.hasLeader {
		verif.Assert(le.(*IndexResponse).Index == r.leader, "leader index as recorded")
	} else {
		verif.Assert(le.(*IndexResponse).Index == 0, "no leader index recorded reads 0")
	}
}

// vhCheckRead runs one kind of read (which selects it).
func vhCheckRead(f *FSM, r *vhRef, maxK int, which int) {
	switch which {
	case 0:
		vhCheckSingle(f, r, maxK)
	case 1:
		vhCheckRange(f, r, maxK)
	default:
		vhCheckIndex(f, r)
	}
}

// VHNewFSM: an opened table state machine over an empty database, for
// harnesses in other packages (engine: Pebble model; native: real Pebble in memory).
func VHNewFSM(applied func(uint64)) *FSM { return vhFSM(vhOpenDB(), applied) }

// VHLoadState loads an arbitrary content (see vhArbitraryStateSys) and returns its keys and values.
func VHLoadState(f *FSM, maxN, maxK, maxV int) (keys, vals [][]byte) {
	r := vhArbitraryStateSys(f.pebble.Load(), maxN, maxK, maxV, true)
	return r.keys, r.vals
}

// VHSummary: number of user pairs, applied index and leader index (through the real read paths).
func VHSummary(f *FSM) (count int64, index, leader uint64) {
	return vhWhole(f).Count, vhReadIndex(f, false), vhReadIndex(f, true)
}

// VHHasKey reports whether an exact stored user key exists (incl. the empty key, which the API cannot address).
func VHHasKey(f *FSM, k []byte) bool {
	_, closer, err := f.pebble.Load().Get(vhEnc(k))
	if err != nil {
		return false
	}
	closer.Close()
	return true
}

// VHValueIs reports whether user key k is stored with exactly value v.
func VHValueIs(f *FSM, k, v []byte) bool {
	got, closer, err := f.pebble.Load().Get(vhEnc(k))
	if err != nil {
		return false
	}
	defer closer.Close()
	return bytes.Equal(got, v)
}

// VHArbCommand: see vhArbCommand (C03).
func VHArbCommand(kinds, maxK int) *regattapb.Command { return vhArbCommand(kinds, maxK, false) }

// VHPut writes a pair / the bookkeeping directly into the table's database (pre-state construction).
func VHPut(f *FSM, k, v []byte) {
	if err := f.pebble.Load().Set(vhEnc(k), v, pebble.NoSync); err != nil {
		panic(err)
	}
}

func VHSetIndexes(f *FSM, local, leader uint64) {
	db := f.pebble.Load()
	_ = db.Set(sysLocalIndex, vhU64(local), pebble.NoSync)
	_ = db.Set(sysLeaderIndex, vhU64(leader), pebble.NoSync)
}

// VHContent reads the whole user content through the real range path.
func VHContent(f *FSM) []*regattapb.KeyValue { return vhWhole(f).Kvs }

func vhSet(db *pebble.DB, k, v []byte) {
	if err := db.Set(vhEnc(k), v, pebble.NoSync); err != nil {
		panic(err)
	}
}

func vhSetSys(db *pebble.DB, local, leader uint64) {
	_ = db.Set(sysLocalIndex, vhU64(local), pebble.NoSync)
	_ = db.Set(sysLeaderIndex, vhU64(leader), pebble.NoSync)
}
