//go:build verif

package fsm

import (
	"bytes"

	"github.com/jamf/regatta/internal/verif"
	"github.com/jamf/regatta/regattapb"
	sm "github.com/lni/dragonboat/v4/statemachine"
)

// vhCmdCapture receives the records of a table stream: the producer hands
// over one marshalled command per Write.
type vhCmdCapture struct{ cmds []*regattapb.Command }

func (c *vhCmdCapture) Write(p []byte) (int, error) {
	cmd := &regattapb.Command{}
	if err := cmd.UnmarshalVT(p); err != nil {
		return 0, err
	}
	c.cmds = append(c.cmds, cmd)
	return len(p), nil
}

func vhStreamIs(c *vhCmdCapture, r *vhRef, what string) {
	verif.Assert(len(c.cmds) == len(r.keys), what+": one record per pair of the table, none for the bookkeeping keys")
	for i := 0; i < len(c.cmds) && i < len(r.keys); i++ {
		cmd := c.cmds[i]
		verif.Assert(cmd.Type == regattapb.Command_PUT && string(cmd.Table) == "t" && cmd.Kv != nil, what+": every record is a put into the table")
		if cmd.Kv != nil {
			verif.Assert(bytes.Equal(cmd.Kv.Key, r.keys[i]) && bytes.Equal(cmd.Kv.Value, r.vals[i]), what+": records carry the pairs in key order")
		}
	}
}

// VH_C07_stream: producing a table stream (backup / follower recovery) from
// an arbitrary table: exactly its pairs, in order, and the index the stream
// declares is the table's applied index.
func VH_C07_stream(maxN int) {
	db := vhOpenDB()
	ref := vhArbitraryStateSys(db, maxN, 2, 1, true)
	f := vhFSM(db, nil)
	w := &vhCmdCapture{}
	out, err := f.Lookup(SnapshotRequest{Writer: w, Stopper: make(chan struct{})})
	verif.Assert(err == nil, "stream production succeeds")
	if err != nil {
		return
	}
	verif.Assert(out.(*SnapshotResponse).Index == ref.index, "the stream declares the table's applied index")
	vhStreamIs(w, ref, "stream")
	verif.Cover("end")
}

// VH_C07_pointintime: a write is applied concurrently with the production of
// a stream, with every interleaving of their database operations. The stream
// is the table at exactly the index it declares: the old content with the old
// index or the new content with the new one. Engine only.
func VH_C07_pointintime() {
	db := vhOpenDB()
	ref := vhArbitraryStateSys(db, 1, 1, -1, true)
	verif.Assume(ref.index < 1<<62)
	f := vhFSM(db, nil)
	after := ref.clone()
	k, v := verif.Bytes(1), verif.Bytes(1)
	after.put(k, v)
	after.index = ref.index + 1
	done := make(chan struct{})
	verif.YieldAtDB(true)
	go func() {
		_, err := f.Update([]sm.Entry{vhEntry(ref.index+1, &regattapb.Command{Table: []byte("t"), Type: regattapb.Command_PUT, Kv: &regattapb.KeyValue{Key: k, Value: v}})})
		verif.Assert(err == nil, "concurrent apply succeeds")
		close(done)
	}()
	w := &vhCmdCapture{}
	out, err := f.Lookup(SnapshotRequest{Writer: w, Stopper: make(chan struct{})})
	<-done
	verif.YieldAtDB(false)
	verif.Assert(err == nil, "stream production succeeds")
	if err != nil {
		return
	}
	idx := out.(*SnapshotResponse).Index
	verif.Assert(idx == ref.index || idx == after.index, "the declared index is one the table had")
	if idx == ref.index {
		vhStreamIs(w, ref, "stream at the old index")
		verif.Cover("old")
	} else if idx == after.index {
		vhStreamIs(w, after, "stream at the new index")
		verif.Cover("new")
	}
	verif.Cover("end")
}
