//go:build verif

package fsm

import (
	"bytes"

	"github.com/cockroachdb/pebble"
	"github.com/cockroachdb/pebble/vfs"
	"github.com/jamf/regatta/internal/verif"
	"github.com/jamf/regatta/regattapb"
	sm "github.com/lni/dragonboat/v4/statemachine"
)

func vhCopyState(ref *vhRef) *pebble.DB {
	db := vhOpenDB()
	for i := range ref.keys {
		if err := db.Set(vhEnc(ref.keys[i]), ref.vals[i], pebble.NoSync); err != nil {
			panic(err)
		}
	}
	if ref.hasIndex {
		_ = db.Set(sysLocalIndex, vhU64(ref.index), pebble.NoSync)
	}
	if ref.hasLeader {
		_ = db.Set(sysLeaderIndex, vhU64(ref.leader), pebble.NoSync)
	}
	return db
}

func vhReadIndex(f *FSM, leader bool) uint64 {
	var req interface{} = LocalIndexRequest{}
	if leader {
		req = LeaderIndexRequest{}
	}
	out, err := f.Lookup(req)
	if err != nil {
		panic(err)
	}
	return out.(*IndexResponse).Index
}

func vhWhole(f *FSM) *regattapb.ResponseOp_Range {
	out, err := f.Lookup(&regattapb.RequestOp_Range{Key: []byte{0}, RangeEnd: wildcard})
	if err != nil {
		panic(err)
	}
	return out.(*regattapb.ResponseOp_Range)
}

// vhArbCommand: an arbitrary command of one of the first `kinds` kinds
// in the order: no-op, put, delete range, transaction (one compare, a delete / a put branch).
func vhArbCommand(kinds, maxK int, wide bool) *regattapb.Command {
	cmd := &regattapb.Command{Table: []byte("t")}
	switch []int{2, 0, 1, 3}[verif.Choice(kinds)] {
	case 0:
		cmd.Type = regattapb.Command_PUT
		cmd.Kv = &regattapb.KeyValue{Key: vhArbKey(1, maxK), Value: verif.Bytes(1)}
		cmd.PrevKvs = verif.Bool()
	case 1:
		cmd.Type = regattapb.Command_DELETE
		cmd.Kv = &regattapb.KeyValue{Key: vhArbKey(1, maxK)}
		cmd.RangeEnd = vhArbKey(1, maxK)
		cmd.Count = verif.Bool()
	case 2:
		cmd.Type = regattapb.Command_DUMMY
	default:
		cmd.Type = regattapb.Command_TXN
		k := vhArbKey(1, maxK)
		cmd.Txn = &regattapb.Txn{
			Compare: []*regattapb.Compare{{Key: k, Result: regattapb.Compare_EQUAL, Target: regattapb.Compare_VALUE, TargetUnion: &regattapb.Compare_Value{Value: verif.Bytes(1)}}},
			Success: []*regattapb.RequestOp{{Request: &regattapb.RequestOp_RequestDeleteRange{RequestDeleteRange: &regattapb.RequestOp_DeleteRange{Key: k, PrevKv: true}}}},
			Failure: []*regattapb.RequestOp{{Request: &regattapb.RequestOp_RequestPut{RequestPut: &regattapb.RequestOp_Put{Key: k, Value: verif.Bytes(1), PrevKv: true}}}},
		}
	}
	if verif.Bool() {
		li := vhIndex(wide)
		cmd.LeaderIndex = &li
	}
	return cmd
}

// VH_C03_batching: the same log applied to two replicas starting from the
// same arbitrary state, one in a single apply call and one cut into
// consecutive apply calls at arbitrary positions, ends in the same content,
// the same per-entry results and the same applied / leader index.
func VH_C03_batching(m, kinds, maxN, maxK int) {
	dbA := vhOpenDB()
	ref := vhArbitraryStateSys(dbA, maxN, maxK, -1, false)
	dbB := vhCopyState(ref)
	fa, fb := vhFSM(dbA, nil), vhFSM(dbB, nil)

	var log []sm.Entry
	idx := uint64(0)
	for i := 0; i < m; i++ {
		idx += vhIndex(false) // strictly ascending
		log = append(log, vhEntry(idx, vhArbCommand(kinds, maxK, false)))
	}
	vhCompareBatchings(fa, fb, log, idx)
	verif.Cover("end")
}

// vhCompareBatchings applies log to fa in one apply call and to fb cut at an
// arbitrary partition and compares results, content and bookkeeping.
func vhCompareBatchings(fa, fb *FSM, log []sm.Entry, idx uint64) {
	m := len(log)
	mk := func() []sm.Entry {
		c := make([]sm.Entry, len(log))
		for i := range log {
			c[i] = sm.Entry{Index: log[i].Index, Cmd: append([]byte(nil), log[i].Cmd...)}
		}
		return c
	}
	ra, err := fa.Update(mk())
	verif.Assert(err == nil, "single apply call succeeds")

	// replica B: cut after entry i iff bit i of the partition choice
	part := verif.Choice(1 << (m - 1))
	var rb []sm.Entry
	all := mk()
	start := 0
	for i := 0; i < m; i++ {
		if i == m-1 || part&(1<<i) != 0 {
			out, err := fb.Update(all[start : i+1])
			verif.Assert(err == nil, "apply call succeeds")
			rb = append(rb, out...)
			start = i + 1
		}
	}
	if part != 0 {
		verif.Cover("split")
	}
	verif.Assert(len(ra) == m && len(rb) == m, "one result per entry")
	for i := 0; i < m && i < len(ra) && i < len(rb); i++ {
		verif.Assert(ra[i].Result.Value == rb[i].Result.Value, "per-entry result value independent of batching")
		verif.Assert(bytes.Equal(ra[i].Result.Data, rb[i].Result.Data), "per-entry result payload independent of batching")
	}
	wa, wb := vhWhole(fa), vhWhole(fb)
	verif.Assert(wa.Count == wb.Count && len(wa.Kvs) == len(wb.Kvs), "same number of pairs")
	for i := 0; i < len(wa.Kvs) && i < len(wb.Kvs); i++ {
		verif.Assert(bytes.Equal(wa.Kvs[i].Key, wb.Kvs[i].Key) && bytes.Equal(wa.Kvs[i].Value, wb.Kvs[i].Value), "same content")
	}
	verif.Assert(vhReadIndex(fa, false) == vhReadIndex(fb, false), "same applied index")
	verif.Assert(vhReadIndex(fa, false) == idx, "applied index == index of the last entry")
	verif.Assert(vhReadIndex(fa, true) == vhReadIndex(fb, true), "same leader index")
}

// VH_C03_rangethenread: a range delete followed by a command whose result
// reads the state (put with prev_kv / counted delete): the reading command's
// result must not depend on whether both were applied in one call.
func VH_C03_rangethenread(maxN, maxK int) {
	dbA := vhOpenDB()
	ref := vhArbitraryStateSys(dbA, maxN, maxK, -1, true)
	dbB := vhCopyState(ref)
	fa, fb := vhFSM(dbA, nil), vhFSM(dbB, nil)
	first := &regattapb.Command{Table: []byte("t"), Type: regattapb.Command_DELETE, Kv: &regattapb.KeyValue{Key: vhArbKey(1, maxK)}, RangeEnd: wildcard}
	second := &regattapb.Command{Table: []byte("t")}
	k := vhArbKey(1, maxK)
	if verif.Bool() {
		second.Type, second.Kv, second.PrevKvs = regattapb.Command_PUT, &regattapb.KeyValue{Key: k, Value: verif.Bytes(1)}, true
	} else {
		second.Type, second.Kv, second.PrevKvs, second.Count = regattapb.Command_DELETE, &regattapb.KeyValue{Key: k}, true, true
	}
	log := []sm.Entry{vhEntry(5, first), vhEntry(6, second)}
	vhCompareBatchings(fa, fb, log, 6)
	verif.Cover("end")
}

func VH_C03_vacuity() {
	db := vhOpenDB()
	f := vhFSM(db, nil)
	li := uint64(5)
	out, err := f.Update([]sm.Entry{vhEntry(3, &regattapb.Command{Table: []byte("t"), Type: regattapb.Command_DUMMY, LeaderIndex: &li})})
	verif.Assume(err == nil && len(out) == 1 && vhReadIndex(f, true) == 5 && vhReadIndex(f, false) == 3)
	verif.Assert(false, "vacuity")
}

// VH_C03_restart: the state after a restart is the state before it. Three
// arbitrary plain commands (put / delete / delete range over 1-byte keys, so
// keys are overwritten and deleted again) are applied to a table on a file
// system, each in its own apply call; the table is closed (which flushes) and
// reopened: same content, same index as the reference - nothing that was
// deleted comes back, nothing is lost.
func VH_C03_restart(k1, k2, k3 int) {
	mem := vfs.NewMem()
	f := vhFSMOn(mem, "/data/t-10001")
	_, err := f.Open(nil)
	verif.Assume(err == nil)
	ref := &vhRef{}
	idx := uint64(0)
	for _, k := range []int{k1, k2, k3} {
		cmd, _ := vhSimpleCmd(k, ref, 1, "")
		idx++
		_, err := f.Update([]sm.Entry{vhEntry(idx, cmd)})
		verif.Assert(err == nil, "apply succeeds")
	}
	vhWholeTable(f, ref, "before the restart")
	verif.Assert(f.Close() == nil, "close succeeds")
	f2 := vhFSMOn(mem, "/data/t-10001")
	got, err := f2.Open(nil)
	verif.Assert(err == nil && got == idx, "reopen reports the applied index")
	if err != nil {
		return
	}
	vhWholeTable(f2, ref, "after the restart")
	verif.Cover("end")
}
