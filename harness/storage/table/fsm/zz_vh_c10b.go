//go:build verif

package fsm

import (
	"bytes"

	"github.com/jamf/regatta/internal/verif"
	"github.com/jamf/regatta/regattapb"
	sm "github.com/lni/dragonboat/v4/statemachine"
)

// VH_C10_samedelivery: ordering the writes by revision explains every
// response also when several entries arrive in one delivery (one Update
// call, one uncommitted batch): a put at revision N and a read-write
// transaction at revision N+1 whose executed branch reads the key — and, in
// its second op, a key its own first op wrote. The reads reflect every write
// with a lower revision and the transaction's own earlier ops.
func VH_C10_samedelivery() {
	db := vhOpenDB()
	ref := vhArbitraryStateSys(db, 1, 1, -1, true)
	f := vhFSM(db, nil)
	idx := vhIndex(false)
	k, v := verif.Bytes(1), verif.Bytes(1)
	k2, v2 := verif.Bytes(1), verif.Bytes(1)
	put := &regattapb.Command{Table: []byte("t"), Type: regattapb.Command_PUT, Kv: &regattapb.KeyValue{Key: k, Value: v}}
	txn := &regattapb.Command{Table: []byte("t"), Type: regattapb.Command_TXN, Txn: &regattapb.Txn{
		Success: []*regattapb.RequestOp{
			{Request: &regattapb.RequestOp_RequestPut{RequestPut: &regattapb.RequestOp_Put{Key: k2, Value: v2}}},
			{Request: &regattapb.RequestOp_RequestRange{RequestRange: &regattapb.RequestOp_Range{Key: k}}},
			{Request: &regattapb.RequestOp_RequestRange{RequestRange: &regattapb.RequestOp_Range{Key: k2}}},
		},
	}}
	out, err := f.Update([]sm.Entry{vhEntry(idx, put), vhEntry(idx+1, txn)})
	verif.Assert(err == nil && len(out) == 2, "update succeeds")
	if err != nil || len(out) != 2 {
		return
	}
	ref.put(k, v)
	ref.put(k2, v2)
	r1, r2 := vhResult(out[0]), vhResult(out[1])
	verif.Assert(r1.Revision == idx && r2.Revision == idx+1, "revisions are the log positions")
	verif.Assert(len(r2.Responses) == 3, "one response per executed op")
	if len(r2.Responses) == 3 {
		for i, key := range [][]byte{k, k2} {
			rr := r2.Responses[1+i].GetResponseRange()
			verif.Assert(rr != nil, "range response")
			if rr == nil {
				continue
			}
			want, _ := ref.get(key)
			verif.Assert(rr.Count == 1 && len(rr.Kvs) == 1 && bytes.Equal(rr.Kvs[0].Value, want), "a read inside a transaction reflects every write with a lower revision and the transaction's own earlier ops")
		}
	}
	vhWholeTable(f, ref, "after the delivery")
	verif.Cover("end")
}

// VH_C10_listener: the applied-index listener is what releases clients
// waiting for a revision on this replica (follower writes). At the moment it
// reports index N, a read on this replica already sees the write of N and
// the recorded indices are at least N: an acknowledged write is never ahead
// of what the replica serves.
func VH_C10_listener(follower int) {
	db := vhOpenDB()
	_ = vhArbitraryStateSys(db, 1, 1, -1, true)
	k, v := verif.Bytes(1), verif.Bytes(1)
	idx := vhIndex(false)
	var f *FSM
	calls := 0
	f = vhFSM(db, func(applied uint64) {
		calls++
		verif.Cover("listener-called")
		out, err := f.Lookup(&regattapb.RequestOp_Range{Key: k})
		verif.Assert(err == nil, "read inside the listener succeeds")
		if err != nil {
			return
		}
		rr := out.(*regattapb.ResponseOp_Range)
		verif.Assert(rr.Count == 1 && len(rr.Kvs) == 1 && bytes.Equal(rr.Kvs[0].Value, v), "when an index is reported as applied, a read on this replica sees its write")
		if follower != 0 {
			verif.Assert(vhReadIndex(f, true) >= applied, "the recorded leader index is not behind the reported one")
		} else {
			verif.Assert(vhReadIndex(f, false) >= applied, "the recorded applied index is not behind the reported one")
		}
	})
	cmd := &regattapb.Command{Table: []byte("t"), Type: regattapb.Command_PUT, Kv: &regattapb.KeyValue{Key: k, Value: v}}
	if follower != 0 {
		li := vhIndex(false)
		cmd.LeaderIndex = &li
	}
	_, err := f.Update([]sm.Entry{vhEntry(idx, cmd)})
	verif.Assert(err == nil, "apply succeeds")
	// (whether the listener is called at all depends on the table's role: an entry
	// without a leader index on a table that records one is not announced, C11)
	_ = calls
	verif.Cover("end")
}
