//go:build verif

package fsm

import (
	"github.com/jamf/regatta/internal/verif"
	"github.com/jamf/regatta/regattapb"
	"github.com/jamf/regatta/util/iter"
)

// VH_C09_unary: a range read with arbitrary bounds, flags and limit returns
// the first min(limit, matches) pairs of the reference view, in order, with
// count as stated and more <=> pairs of the range remain.
func VH_C09_unary(maxN, maxK, maxV int) {
	db := vhOpenDB()
	ref := vhArbitraryStateSys(db, maxN, maxK, maxV, true)
	f := vhFSM(db, nil)
	a, b := vhArbKey(1, maxK), vhArbKey(0, maxK)
	keysOnly, countOnly := verif.Bool(), verif.Bool()
	verif.Assume(!(keysOnly && countOnly))
	limit := verif.Concretize(verif.Int(), 0, maxN+1) // 0 = unlimited
	out, err := f.Lookup(&regattapb.RequestOp_Range{Key: a, RangeEnd: b, KeysOnly: keysOnly, CountOnly: countOnly, Limit: int64(limit)})
	verif.Assert(err == nil, "range read succeeds")
	resp := out.(*regattapb.ResponseOp_Range)
	wk, wv := ref.rng(a, b)
	matches := len(wk)
	want := matches
	if limit != 0 && limit < matches {
		want = limit
	}
	if limit != 0 && matches == limit+1 {
		verif.Cover("exactly-one-beyond-limit")
	}
	if limit != 0 && matches == limit {
		verif.Cover("limit-equals-matches")
	}
	verif.Assert(resp.Count == int64(want), "count == number returned (or counted)")
	if countOnly {
		verif.Assert(len(resp.Kvs) == 0, "count-only returns no pair")
	} else {
		vhSameKVs(resp.Kvs, wk[:want], wv[:want], !keysOnly, "limited range read")
	}
	verif.Assert(resp.More == (matches > want), "more <=> pairs of the range remain beyond those returned")
	verif.Cover("end")
}

// VH_C09_stream: the streamed read delivers, over all its messages, exactly
// the unary unlimited view; all messages but the last are flagged more; the
// last is flagged more iff the limit cut the range.
func VH_C09_stream(maxN, maxK, maxV int) {
	db := vhOpenDB()
	ref := vhArbitraryStateSys(db, maxN, maxK, maxV, true)
	f := vhFSM(db, nil)
	a, b := vhArbKey(1, maxK), vhArbKey(0, maxK)
	keysOnly, countOnly := verif.Bool(), verif.Bool()
	verif.Assume(!(keysOnly && countOnly))
	limit := verif.Concretize(verif.Int(), 0, maxN+1)
	out, err := f.Lookup(IteratorRequest{RangeOp: &regattapb.RequestOp_Range{Key: a, RangeEnd: b, KeysOnly: keysOnly, CountOnly: countOnly, Limit: int64(limit)}})
	verif.Assert(err == nil, "iterator request succeeds")
	chunks := iter.Collect(out.(iter.Seq[*regattapb.ResponseOp_Range]))
	verif.Assert(len(chunks) >= 1, "at least one message")
	wk, wv := ref.rng(a, b)
	matches := len(wk)
	want := matches
	if limit != 0 && limit < matches {
		want = limit
	}
	var kvs []*regattapb.KeyValue
	var count int64
	for i, c := range chunks {
		kvs = append(kvs, c.Kvs...)
		count += c.Count
		if i < len(chunks)-1 {
			verif.Assert(c.More, "every message but the last is flagged more")
		} else {
			verif.Assert(c.More == (matches > want), "last message flagged more iff the limit cut the range")
		}
	}
	if countOnly {
		verif.Assert(len(kvs) == 0 && count == int64(want), "count-only stream counts")
	} else {
		vhSameKVs(kvs, wk[:want], wv[:want], !keysOnly, "streamed pairs == unary view")
	}
	verif.Cover("end")
}

func VH_C09_vacuity(maxN, maxK int) {
	db := vhOpenDB()
	ref := vhArbitraryStateSys(db, maxN, maxK, -1, true)
	verif.Assume(len(ref.keys) == maxN)
	f := vhFSM(db, nil)
	out, err := f.Lookup(&regattapb.RequestOp_Range{Key: []byte{0}, RangeEnd: wildcard, Limit: 1})
	verif.Assume(err == nil && out.(*regattapb.ResponseOp_Range).Count == 1)
	verif.Assert(false, "vacuity")
}
