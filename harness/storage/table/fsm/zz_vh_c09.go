//go:build verif

package fsm

import (
	"github.com/cockroachdb/pebble"
	"github.com/jamf/regatta/internal/verif"
	"github.com/jamf/regatta/regattapb"
	"github.com/jamf/regatta/util/iter"
	sm "github.com/lni/dragonboat/v4/statemachine"
)

// VH_C09_unary: a range read with arbitrary bounds, flags and limit returns
// the first min(limit, matches) pairs of the reference view, in order, with
// count as stated and more <=> pairs of the range remain.
func VH_C09_unary(maxN, maxK, maxV int) {
	db := vhOpenDB()
	ref := vhArbitraryStateSys(db, maxN, maxK, maxV, true)
	f := vhFSM(db, nil)
	a, b := vhArbKey(1, maxK), vhArbKey(0, maxK)
	keysOnly, countOnly := verif.Bool(), verif.Bool()
	verif.Assume(!(keysOnly && countOnly))
	limit := verif.Concretize(verif.Int(), 0, maxN+1) // 0 = unlimited
	out, err := f.Lookup(&regattapb.RequestOp_Range{Key: a, RangeEnd: b, KeysOnly: keysOnly, CountOnly: countOnly, Limit: int64(limit)})
	verif.Assert(err == nil, "range read succeeds")
	resp := out.(*regattapb.ResponseOp_Range)
	wk, wv := ref.rng(a, b)
	matches := len(wk)
	want := matches
	if limit != 0 && limit < matches {
		want = limit
	}
	if limit != 0 && matches == limit+1 {
		verif.Cover("exactly-one-beyond-limit")
	}
	if limit != 0 && matches == limit {
		verif.Cover("limit-equals-matches")
	}
	verif.Assert(resp.Count == int64(want), "count == number returned (or counted)")
	if countOnly {
		verif.Assert(len(resp.Kvs) == 0, "count-only returns no pair")
	} else {
		vhSameKVs(resp.Kvs, wk[:want], wv[:want], !keysOnly, "limited range read")
	}
	verif.Assert(resp.More == (matches > want), "more <=> pairs of the range remain beyond those returned")
	verif.Cover("end")
}

// VH_C09_stream: the streamed read delivers, over all its messages, exactly
// the unary unlimited view; all messages but the last are flagged more; the
// last is flagged more iff the limit cut the range.
func VH_C09_stream(maxN, maxK, maxV, lazy int) {
	db := vhOpenDB()
	ref := vhArbitraryStateSys(db, maxN, maxK, maxV, true)
	f := vhFSM(db, nil)
	a, b := vhArbKey(1, maxK), vhArbKey(0, maxK)
	keysOnly, countOnly := verif.Bool(), verif.Bool()
	verif.Assume(!(keysOnly && countOnly))
	limit := verif.Concretize(verif.Int(), 0, maxN+1)
	out, err := f.Lookup(IteratorRequest{RangeOp: &regattapb.RequestOp_Range{Key: a, RangeEnd: b, KeysOnly: keysOnly, CountOnly: countOnly, Limit: int64(limit)}})
	verif.Assert(err == nil, "iterator request succeeds")
	if lazy != 0 {
		// the stream is consumed lazily: other reads are served between opening it
		// and its first pull (they must not disturb its bounds)
		_, _ = f.Lookup(&regattapb.RequestOp_Range{Key: vhArbKey(1, maxK)})
		_, _ = f.Lookup(&regattapb.RequestOp_Range{Key: vhArbKey(1, 1), RangeEnd: vhArbKey(1, 1), CountOnly: true})
		verif.Cover("reads-before-first-pull")
	}
	chunks := iter.Collect(out.(iter.Seq[*regattapb.ResponseOp_Range]))
	verif.Assert(len(chunks) >= 1, "at least one message")
	wk, wv := ref.rng(a, b)
	matches := len(wk)
	want := matches
	if limit != 0 && limit < matches {
		want = limit
	}
	var kvs []*regattapb.KeyValue
	var count int64
	for i, c := range chunks {
		kvs = append(kvs, c.Kvs...)
		count += c.Count
		if i < len(chunks)-1 {
			verif.Assert(c.More, "every message but the last is flagged more")
		} else {
			verif.Assert(c.More == (matches > want), "last message flagged more iff the limit cut the range")
		}
	}
	if countOnly {
		verif.Assert(len(kvs) == 0 && count == int64(want), "count-only stream counts")
	} else {
		vhSameKVs(kvs, wk[:want], wv[:want], !keysOnly, "streamed pairs == unary view")
	}
	verif.Cover("end")
}

func VH_C09_vacuity(maxN, maxK int) {
	db := vhOpenDB()
	ref := vhArbitraryStateSys(db, maxN, maxK, -1, true)
	verif.Assume(len(ref.keys) == maxN)
	f := vhFSM(db, nil)
	out, err := f.Lookup(&regattapb.RequestOp_Range{Key: []byte{0}, RangeEnd: wildcard, Limit: 1})
	verif.Assume(err == nil && out.(*regattapb.ResponseOp_Range).Count == 1)
	verif.Assert(false, "vacuity")
}

// VH_C09_chunks: size-based cuts. Three pairs whose values are each tiny,
// 1.5 MiB or the 2 MiB maximum (every combination), streamed while writes
// are applied between two messages: the concatenation equals one
// point-in-time view (the one at the first pull), every message stays below
// the 4 MiB transport limit even with a full response header, all but the
// last are flagged more, and unary reads of the same range are consistent
// with their own 'more'.
func VH_C09_chunks() {
	db := vhOpenDB()
	sizes := []int{1, 3 << 19, 2 << 20}
	keys := [][]byte{[]byte("a"), []byte("b"), []byte("c")}
	ref := &vhRef{}
	for _, k := range keys {
		v := make([]byte, sizes[verif.Choice(3)])
		if err := db.Set(vhEnc(k), v, pebble.NoSync); err != nil {
			panic(err)
		}
		ref.put(k, v)
	}
	f := vhFSM(db, nil)
	out, err := f.Lookup(IteratorRequest{RangeOp: &regattapb.RequestOp_Range{Key: []byte{0}, RangeEnd: wildcard}})
	verif.Assert(err == nil, "iterator request succeeds")
	var chunks []*regattapb.ResponseOp_Range
	wrote := false
	out.(iter.Seq[*regattapb.ResponseOp_Range])(func(c *regattapb.ResponseOp_Range) bool {
		chunks = append(chunks, c)
		if !wrote {
			// between two messages of the stream other clients keep writing
			wrote = true
			_, err := f.Update([]sm.Entry{
				vhEntry(5, &regattapb.Command{Table: []byte("t"), Type: regattapb.Command_DELETE, Kv: &regattapb.KeyValue{Key: []byte("a")}}),
				vhEntry(6, &regattapb.Command{Table: []byte("t"), Type: regattapb.Command_PUT, Kv: &regattapb.KeyValue{Key: []byte("d"), Value: []byte("x")}}),
			})
			verif.Assert(err == nil, "concurrent writes apply")
		}
		return true
	})
	var got []*regattapb.KeyValue
	hdr := &regattapb.ResponseHeader{ShardId: ^uint64(0), ReplicaId: ^uint64(0), Revision: ^uint64(0), RaftTerm: ^uint64(0), RaftLeaderId: ^uint64(0)}
	for i, c := range chunks {
		got = append(got, c.Kvs...)
		verif.Assert(c.More == (i < len(chunks)-1), "all messages but the last are flagged more")
		msg := &regattapb.RangeResponse{Header: hdr, Kvs: c.Kvs, More: c.More, Count: c.Count}
		verif.Assert(msg.SizeVT() < 4*1024*1024, "every message stays below the transport message limit")
	}
	if len(chunks) > 1 {
		verif.Cover("cut")
	}
	verif.Assert(len(got) == 3, "the stream delivers the pairs of one point-in-time view")
	for i := 0; i < len(got) && i < 3; i++ {
		verif.Assert(string(got[i].Key) == string(ref.keys[i]) && len(got[i].Value) == len(ref.vals[i]), "streamed pairs are those of the view at the first pull, in order")
	}
	verif.Cover("end")
}
