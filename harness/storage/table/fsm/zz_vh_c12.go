//go:build verif

package fsm

import (
	"bytes"

	"github.com/cockroachdb/pebble"

	"github.com/jamf/regatta/internal/verif"
	rp "github.com/jamf/regatta/pebble"
	"github.com/jamf/regatta/regattapb"
	"github.com/jamf/regatta/storage/table/key"
	sm "github.com/lni/dragonboat/v4/statemachine"
)

// vhEnc encodes a user key exactly the way every storage access does.
func vhEnc(k []byte) []byte {
	buf := bytes.NewBuffer(make([]byte, 0))
	if err := encodeUserKey(buf, k); err != nil {
		panic(err)
	}
	return buf.Bytes()
}

func vhSign(x int) int {
	if x < 0 {
		return -1
	}
	if x > 0 {
		return 1
	}
	return 0
}

// VH_C12_roundtrip: decode(encode(k)) == k, type user, for every key of n bytes.
func VH_C12_roundtrip(n int) {
	a := verif.Bytes(n)
	e := vhEnc(a)
	verif.Assert(len(e) == key.LatestKeyLen(n), "encoded length is header+type+key")
	k, err := key.DecodeBytes(e)
	verif.Assert(err == nil, "decode of an encoded key succeeds")
	verif.Assert(k.KeyType == key.TypeUser, "decoded type is user")
	verif.Assert(bytes.Equal(k.Key, a), "decode(encode(k)) == k")
	verif.Cover("end")
}

// VH_C12_order: injective and order preserving for every pair of keys of la and lb bytes.
func VH_C12_order(la, lb int) {
	a, b := verif.Bytes(la), verif.Bytes(lb)
	ea, eb := vhEnc(a), vhEnc(b)
	verif.Assert(bytes.Equal(ea, eb) == bytes.Equal(a, b), "encoding injective")
	verif.Assert(vhSign(bytes.Compare(ea, eb)) == vhSign(bytes.Compare(a, b)), "encoding order preserving")
	verif.Cover("end")
}

// VH_C12_bounds: for the iterator options built from user bounds [a,b) a key
// k is inside [Lower,Upper) exactly when a <= k < b; with the wildcard upper
// bound exactly when a <= k; the bookkeeping keys are outside in every case.
func VH_C12_bounds(la, lb, lk int) {
	a, b, k := verif.Bytes(la), verif.Bytes(lb), verif.Bytes(lk)
	ek := vhEnc(k)
	inside := func(lo, hi, x []byte) bool { return bytes.Compare(lo, x) <= 0 && bytes.Compare(x, hi) < 0 }

	if !bytes.Equal(b, wildcard) {
		opts, err := iterOptionsForBounds(a, b)
		verif.Assert(err == nil, "bounds encode")
		want := bytes.Compare(a, k) <= 0 && bytes.Compare(k, b) < 0
		verif.Assert(inside(opts.LowerBound, opts.UpperBound, ek) == want, "stored range == user range")
		verif.Assert(!inside(opts.LowerBound, opts.UpperBound, sysLocalIndex), "applied-index key outside every user range")
		verif.Assert(!inside(opts.LowerBound, opts.UpperBound, sysLeaderIndex), "leader-index key outside every user range")
		verif.Cover("bounded")
	}
	optsW, err := iterOptionsForBounds(a, wildcard)
	verif.Assert(err == nil, "wildcard bounds encode")
	verif.Assert(inside(optsW.LowerBound, optsW.UpperBound, ek) == (bytes.Compare(a, k) <= 0), "wildcard range == every key >= start")
	verif.Assert(!inside(optsW.LowerBound, optsW.UpperBound, sysLocalIndex), "applied-index key outside the wildcard range")
	verif.Assert(!inside(optsW.LowerBound, optsW.UpperBound, sysLeaderIndex), "leader-index key outside the wildcard range")
	// both ends open: every encodable (non-empty) key is inside
	optsWW, err := iterOptionsForBounds(wildcard, wildcard)
	verif.Assert(err == nil, "double wildcard bounds encode")
	verif.Assert(inside(optsWW.LowerBound, optsWW.UpperBound, ek), "every encodable key lies inside the wildcard range")
	verif.Cover("end")
}

// VH_C12_increment: incrementRightmostByte yields the smallest same-length
// successor bound. Its only caller passes (a copy of) the encoded maximum
// user key, whose first byte is the version header, so a carry out of the
// top byte (which would produce a lexicographically smaller result) is
// outside the precondition.
func VH_C12_increment(n int) {
	in := verif.Bytes(n)
	verif.Assume(in[0] != 0xFF)
	verif.Assert(maxUserKey[0] != 0xFF, "caller's argument satisfies the precondition")
	orig := append([]byte(nil), in...)
	x := verif.Bytes(n)
	out := incrementRightmostByte(in)
	verif.Assert(bytes.Compare(orig, out) < 0, "incremented bound is greater")
	// nothing of the same length lies strictly between
	verif.Assert(!(bytes.Compare(orig, x) < 0 && bytes.Compare(x, out) < 0), "no same-length key between a bound and its increment")
	verif.Cover("end")
}

// VH_C12_options: the storage engine compares keys bytewise (default
// comparer) and the prefix extractor is the whole key.
func VH_C12_options(n int) {
	o := rp.DefaultOptions()
	b := verif.Bytes(n)
	verif.Assert(o.Comparer.Split(b) == n, "prefix extractor is the whole key")
	verif.Assert(verif.SameFunc(o.Comparer.Compare, pebble.DefaultComparer.Compare), "comparer is pebble's bytewise default")
	verif.Assert(o.DisableWAL, "WAL disabled (durability = flush), as the crash model assumes")
	verif.Cover("end")
}

func VH_C12_vacuity(n int) {
	a := verif.Bytes(n)
	_ = vhEnc(a)
	verif.Assert(false, "vacuity")
}

// VH_C12_deleterange: the write path builds its own bounds (handleDelete). A
// range delete [a, b) — b arbitrary or the wildcard — applied to a table
// holding one arbitrary key of lk bytes removes it exactly when a <= k < b
// (k >= a for the wildcard), reports it when asked, and never touches the
// bookkeeping keys.
func VH_C12_deleterange(la, lk int) {
	db := vhOpenDB()
	k := verif.Bytes(lk)
	vhSet(db, k, []byte("v"))
	vhSetSys(db, 5, 9)
	f := vhFSM(db, nil)
	a := verif.Bytes(la)
	var b []byte
	wild := verif.Bool()
	if wild {
		b = []byte{0}
	} else {
		b = verif.Bytes(lk)
		wild = bytes.Equal(b, wildcard) // a one-byte zero end IS the wildcard
	}
	cmd := &regattapb.Command{Table: []byte("t"), Type: regattapb.Command_DELETE, Kv: &regattapb.KeyValue{Key: a}, RangeEnd: b, Count: true}
	out, err := f.Update([]sm.Entry{vhEntry(6, cmd)})
	verif.Assert(err == nil && len(out) == 1, "update succeeds")
	if err != nil || len(out) != 1 {
		return
	}
	want := bytes.Compare(a, k) <= 0 && (wild || bytes.Compare(k, b) < 0)
	res := vhResult(out[0])
	if len(res.Responses) == 1 && res.Responses[0].GetResponseDeleteRange() != nil {
		verif.Assert((res.Responses[0].GetResponseDeleteRange().Deleted == 1) == want, "range delete reports the key exactly when it lies in the user range")
	} else {
		verif.Assert(false, "range delete answers with one delete response")
	}
	w := vhWhole(f)
	verif.Assert((w.Count == 0) == want, "range delete removes the key exactly when it lies in the user range")
	verif.Assert(vhReadIndex(f, false) == 6 && vhReadIndex(f, true) == 9, "bookkeeping keys are outside every deleted range")
	if want {
		verif.Cover("deleted")
	} else {
		verif.Cover("kept")
	}
	verif.Cover("end")
}
