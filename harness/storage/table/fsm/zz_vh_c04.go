//go:build verif

package fsm

import (
	"errors"
	"os"
	"runtime"
	"strings"

	"github.com/cockroachdb/pebble/vfs"
	"github.com/jamf/regatta/internal/verif"
	"github.com/jamf/regatta/regattapb"
	sm "github.com/lni/dragonboat/v4/statemachine"
	"go.uber.org/zap"
)

// vhCrashFS wraps the (strict, in-memory) file system and makes the k-th
// file-system operation issued by regatta code the crash point: the
// operation and everything after it has no effect. Natively Pebble's own
// file operations go through the same wrapper but are not counted (Pebble's
// internal atomicity is trusted, see DESIGN C04); in the engine Pebble is a
// model and every call comes from regatta code.
type vhCrashFS struct {
	vfs.FS
	n, k int
	dead bool
	// alternative addressing of the crash point, independent of how many files a
	// database consists of: the occ-th operation with label sel ("<op>:<class of path>")
	sel      string
	occ, cnt int
	// after the process has died: operations of its left-over parts pass through uncounted
	passthrough bool
}

var vhCrashOps = []string{"Stat", "MkdirAll", "Open", "Create", "Rename", "RemoveAll", "List", "Write", "Sync"}
var vhCrashClasses = []string{"nodedir", "current", "updating", "dbdir", "dbfile", "ingest", "other"}

// vhClass classifies a path below the node directory.
func vhClass(name string) string {
	switch {
	case name == vhNodeDir:
		return "nodedir"
	case !strings.HasPrefix(name, vhNodeDir+"/"):
		return "other"
	}
	rest := name[len(vhNodeDir)+1:]
	switch {
	case rest == "current":
		return "current"
	case strings.HasPrefix(rest, "current."):
		return "updating"
	case strings.HasPrefix(rest, "ingest-"):
		return "ingest"
	case strings.Contains(rest, "/"):
		return "dbfile"
	}
	return "dbdir"
}

type vhCrash struct{}

var errVHCrashed = errors.New("vh: crashed")

// vhCaller classifies the code that issued a file-system operation:
// "regatta", "pebble-open" (github.com/cockroachdb/pebble.Open itself) or "".
func vhCaller() string {
	for skip := 3; skip < 10; skip++ {
		pc, _, _, ok := runtime.Caller(skip)
		if !ok {
			return ""
		}
		name := runtime.FuncForPC(pc).Name()
		if strings.Contains(name, "vhCrash") || strings.Contains(name, "/pebble/vfs.") {
			continue
		}
		if strings.HasPrefix(name, "github.com/jamf/regatta/") {
			return "regatta"
		}
		if name == "github.com/cockroachdb/pebble.Open" {
			return "pebble-open"
		}
		return ""
	}
	return ""
}

// tick reports whether the operation may proceed. Counted as crash points:
// every operation issued by regatta code, and the MkdirAll with which
// pebble.Open starts (the point in front of Pebble's own creation and sync of
// the database directory).
func (c *vhCrashFS) tick(op, name string) bool {
	if c.passthrough {
		return true
	}
	if c.dead {
		return false
	}
	if c.sel != "" {
		who := "regatta"
		if !verif.Symbolic() {
			who = vhCaller()
		}
		if (who == "regatta" || (who == "pebble-open" && op == "MkdirAll")) && op+":"+vhClass(name) == c.sel {
			c.cnt++
			if c.cnt == c.occ {
				c.dead = true
				panic(vhCrash{})
			}
		}
		return true
	}
	who := ""
	if !verif.Symbolic() {
		who = vhCaller()
	}
	if verif.Symbolic() || who == "regatta" || (who == "pebble-open" && op == "MkdirAll") {
		c.n++
		if c.k != 0 && c.n == c.k {
			c.dead = true
			panic(vhCrash{})
		}
	}
	return true
}

func (c *vhCrashFS) Stat(name string) (os.FileInfo, error) {
	if !c.tick("Stat", name) {
		return nil, errVHCrashed
	}
	return c.FS.Stat(name)
}
func (c *vhCrashFS) MkdirAll(dir string, perm os.FileMode) error {
	if !c.tick("MkdirAll", dir) {
		return errVHCrashed
	}
	return c.FS.MkdirAll(dir, perm)
}
func (c *vhCrashFS) Open(name string, opts ...vfs.OpenOption) (vfs.File, error) {
	if !c.tick("Open", name) {
		return nil, errVHCrashed
	}
	f, err := c.FS.Open(name, opts...)
	if err != nil {
		return nil, err
	}
	return &vhCrashFile{File: f, c: c, name: name}, nil
}
func (c *vhCrashFS) Create(name string) (vfs.File, error) {
	if !c.tick("Create", name) {
		return nil, errVHCrashed
	}
	f, err := c.FS.Create(name)
	if err != nil {
		return nil, err
	}
	return &vhCrashFile{File: f, c: c, name: name}, nil
}
func (c *vhCrashFS) Rename(oldname, newname string) error {
	if !c.tick("Rename", newname) {
		return errVHCrashed
	}
	return c.FS.Rename(oldname, newname)
}
func (c *vhCrashFS) RemoveAll(name string) error {
	if !c.tick("RemoveAll", name) {
		return errVHCrashed
	}
	return c.FS.RemoveAll(name)
}
func (c *vhCrashFS) List(dir string) ([]string, error) {
	if !c.tick("List", dir) {
		return nil, errVHCrashed
	}
	return c.FS.List(dir)
}

type vhCrashFile struct {
	vfs.File
	c    *vhCrashFS
	name string
}

func (f *vhCrashFile) Write(p []byte) (int, error) {
	if !f.c.tick("Write", f.name) {
		return 0, errVHCrashed
	}
	return f.File.Write(p)
}
func (f *vhCrashFile) Sync() error {
	if !f.c.tick("Sync", f.name) {
		return errVHCrashed
	}
	return f.File.Sync()
}

// vhUntilCrash runs fn; reports whether it was cut short by the crash point.
func vhUntilCrash(fn func()) (crashed bool) {
	defer func() {
		if r := recover(); r != nil {
			if _, ok := r.(vhCrash); ok {
				crashed = true
				return
			}
			panic(r)
		}
	}()
	fn()
	return false
}

// vhKill: the process dies. Natively the database it had open is shut down
// the way Pebble's own crash tests do it — with syncs ignored, so nothing the
// shutdown writes is durable — because an abandoned open database would keep
// writing in the background after the file system has been reset.
func vhKill(mem *vfs.MemFS, cfs *vhCrashFS, f *FSM) {
	cfs.passthrough = true
	mem.SetIgnoreSyncs(true)
	if f != nil {
		if db := f.pebble.Load(); db != nil {
			_ = db.Close()
		}
	}
	mem.ResetToSyncedState() // the crash: everything not made durable is gone
	mem.SetIgnoreSyncs(false)
}

func vhDurableDir(fs vfs.FS, dir string) {
	if err := fs.MkdirAll(dir, 0o755); err != nil {
		panic(err)
	}
	for _, d := range []string{dir, fs.PathDir(dir)} {
		f, err := fs.OpenDir(d)
		if err != nil {
			panic(err)
		}
		_ = f.Sync()
		_ = f.Close()
	}
}

func vhFSMOn(fs vfs.FS, dirname string) *FSM {
	return &FSM{tableName: "t", clusterID: 10001, nodeID: 1, dirname: dirname, fs: fs, log: zap.NewNop().Sugar(), metrics: newMetrics("t", 10001), appliedFunc: func(uint64) {}}
}

const vhNodeDir = "/data/host/t-10001"

// VH_C04_open: first open of a table (node directory absent; host directory
// durable or created by this very open), one applied batch (index 7, one
// put), a completed sync — with a crash at an arbitrary file-system
// operation, or after everything. Reopening must succeed and report an index
// i with exactly the entries 1..i visible; i >= 7 once the sync completed.
func VH_C04_open(hostDurable int) {
	mem := vfs.NewStrictMem()
	vhDurableDir(mem, "/data") // operator-provided base data directory
	if hostDurable != 0 {
		vhDurableDir(mem, "/data/host") // e.g. another table of this node exists already
	}
	cfs := &vhCrashFS{FS: mem, k: verif.Concretize(verif.Int(), 0, 30)}
	key, val := []byte("k"), []byte("v")
	opened, applied, synced := false, false, false
	var f *FSM
	crashed := vhUntilCrash(func() {
		f = vhFSMOn(cfs, vhNodeDir)
		idx, err := f.Open(nil)
		verif.Assert(err == nil && idx == 0, "first open succeeds with index 0")
		opened = true
		_, err = f.Update([]sm.Entry{vhEntry(7, &regattapb.Command{Table: []byte("t"), Type: regattapb.Command_PUT, Kv: &regattapb.KeyValue{Key: key, Value: val}})})
		verif.Assert(err == nil, "apply succeeds")
		applied = true
		verif.Assert(f.Sync() == nil, "sync succeeds")
		synced = true
	})
	if crashed {
		verif.Cover("crash-during")
	} else {
		verif.Assert(synced, "harness: ran to the end")
		verif.Cover("crash-after-sync")
	}
	_, _ = opened, applied
	vhKill(mem, cfs, f)

	f2 := vhFSMOn(&vhCrashFS{FS: mem}, vhNodeDir)
	idx, err := f2.Open(nil)
	verif.Assert(err == nil, "reopening a table after a crash succeeds")
	if err != nil {
		return
	}
	verif.Assert(idx == 0 || idx == 7, "the reported index is one the log produced")
	if synced {
		verif.Assert(idx >= 7, "the reported index is at least the index covered by the last completed sync")
	}
	w := vhWhole(f2)
	if idx == 7 {
		verif.Assert(w.Count == 1 && len(w.Kvs) == 1 && string(w.Kvs[0].Key) == "k" && string(w.Kvs[0].Value) == "v", "index 7 => exactly entries 1..7 visible")
	} else {
		verif.Assert(w.Count == 0, "index 0 => nothing visible (never data ahead of the reported index)")
	}
	verif.Cover("end")
}

// VH_C04_reopen: an existing table (opened, applied, synced and cleanly
// closed before), then reopened, a second batch applied and synced, with a
// crash anywhere; left-overs of an interrupted switch-over may lie around.
func VH_C04_reopen() {
	mem := vfs.NewStrictMem()
	vhDurableDir(mem, "/data")
	vhDurableDir(mem, "/data/host")
	{
		f := vhFSMOn(&vhCrashFS{FS: mem}, vhNodeDir)
		_, err := f.Open(nil)
		verif.Assume(err == nil)
		_, err = f.Update([]sm.Entry{vhEntry(3, &regattapb.Command{Table: []byte("t"), Type: regattapb.Command_PUT, Kv: &regattapb.KeyValue{Key: []byte("a"), Value: []byte("1")}})})
		verif.Assume(err == nil && f.Sync() == nil && f.Close() == nil)
		// the state a long-running node is in: everything of the first run is durable
		vhDurableDir(mem, vhNodeDir)
		names, _ := mem.List(vhNodeDir)
		for _, n := range names {
			if fi, err := mem.Stat(vhNodeDir + "/" + n); err == nil && fi.IsDir() {
				vhDurableDir(mem, vhNodeDir+"/"+n)
			}
		}
		if verif.Bool() {
			// a left-over of an interrupted directory switch-over
			lf, _ := mem.Create(vhNodeDir + "/current.updating")
			_, _ = lf.Write([]byte("garbage"))
			_ = lf.Sync()
			_ = lf.Close()
			vhDurableDir(mem, vhNodeDir)
		}
	}
	cfs := &vhCrashFS{FS: mem, k: verif.Concretize(verif.Int(), 0, 30)}
	synced := false
	var f *FSM
	crashed := vhUntilCrash(func() {
		f = vhFSMOn(cfs, vhNodeDir)
		idx, err := f.Open(nil)
		verif.Assert(err == nil && idx == 3, "reopen of a cleanly closed table reports its index")
		_, err = f.Update([]sm.Entry{vhEntry(9, &regattapb.Command{Table: []byte("t"), Type: regattapb.Command_PUT, Kv: &regattapb.KeyValue{Key: []byte("b"), Value: []byte("2")}})})
		verif.Assert(err == nil && f.Sync() == nil, "apply and sync succeed")
		synced = true
	})
	if crashed {
		verif.Cover("crash-during")
	}
	vhKill(mem, cfs, f)
	f2 := vhFSMOn(&vhCrashFS{FS: mem}, vhNodeDir)
	idx, err := f2.Open(nil)
	verif.Assert(err == nil, "reopening a table after a crash succeeds")
	if err != nil {
		return
	}
	verif.Assert(idx == 3 || idx == 9, "the reported index is one the log produced, never behind a completed sync")
	if synced {
		verif.Assert(idx == 9, "a completed sync is never lost")
	}
	w := vhWhole(f2)
	if idx == 9 {
		verif.Assert(w.Count == 2, "index 9 => both batches visible")
	} else {
		verif.Assert(w.Count == 1, "index 3 => exactly the first batch visible")
	}
	verif.Cover("end")
}

func VH_C04_vacuity() {
	mem := vfs.NewStrictMem()
	vhDurableDir(mem, "/data")
	f := vhFSMOn(&vhCrashFS{FS: mem}, vhNodeDir)
	idx, err := f.Open(nil)
	verif.Assume(err == nil && idx == 0)
	verif.Assert(false, "vacuity")
}

// VH_C04_bigbatch: Pebble may flush its memtable on its own at any time (the
// WAL is disabled, so whatever has been committed can become durable without
// a Sync) and a batch may cross any size threshold. One apply call delivers
// two entries after a synced one; the process dies right after it. The
// reopened table reports an index i with exactly the entries 1..i visible -
// never the index of an entry whose write is missing. Engine only.
func VH_C04_bigbatch() {
	mem := vfs.NewStrictMem()
	vhDurableDir(mem, "/data")
	vhDurableDir(mem, "/data/host")
	cfs := &vhCrashFS{FS: mem}
	f := vhFSMOn(cfs, vhNodeDir)
	_, err := f.Open(nil)
	verif.Assume(err == nil)
	put := func(k string) *regattapb.Command {
		return &regattapb.Command{Table: []byte("t"), Type: regattapb.Command_PUT, Kv: &regattapb.KeyValue{Key: []byte(k), Value: []byte("1")}}
	}
	_, err = f.Update([]sm.Entry{vhEntry(7, put("a"))})
	verif.Assume(err == nil && f.Sync() == nil)
	verif.BatchSizes(true)
	verif.SpontaneousFlush(true)
	_, err = f.Update([]sm.Entry{vhEntry(8, put("b")), vhEntry(9, put("c"))})
	verif.Assert(err == nil, "apply succeeds")
	verif.SpontaneousFlush(false)
	verif.BatchSizes(false)
	vhKill(mem, cfs, f)

	f2 := vhFSMOn(&vhCrashFS{FS: mem}, vhNodeDir)
	idx, err := f2.Open(nil)
	verif.Assert(err == nil, "reopening a table after a crash succeeds")
	if err != nil {
		return
	}
	verif.Assert(idx >= 7 && idx <= 9, "the reported index is one the log produced, not behind the completed sync")
	w := vhWhole(f2)
	verif.Assert(w.Count == int64(idx-6), "exactly the entries up to the reported index are visible (never an index ahead of the data)")
	if idx == 9 {
		verif.Cover("flushed-on-its-own")
	}
	verif.Cover("end")
}
