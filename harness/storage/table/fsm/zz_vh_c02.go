//go:build verif

package fsm

import (
	"bytes"

	"github.com/jamf/regatta/internal/verif"
	"github.com/jamf/regatta/regattapb"
	sm "github.com/lni/dragonboat/v4/statemachine"
)

// vhSpecCompareOne is the documented predicate semantics: missing key or
// empty range => false; a range predicate holds iff every key of the range
// satisfies it; the stored value is on the left-hand side; a predicate with
// no value target only tests existence.
func vhSpecCompareOne(r *vhRef, c *regattapb.Compare) bool {
	holds := func(stored []byte) bool {
		if c.TargetUnion == nil {
			return true
		}
		want := c.GetValue()
		switch c.Result {
		case regattapb.Compare_EQUAL:
			return bytes.Equal(stored, want)
		case regattapb.Compare_NOT_EQUAL:
			return !bytes.Equal(stored, want)
		case regattapb.Compare_GREATER:
			return bytes.Compare(stored, want) > 0
		case regattapb.Compare_LESS:
			return bytes.Compare(stored, want) < 0
		}
		return true
	}
	if len(c.RangeEnd) == 0 { // absent on the wire
		v, ok := r.get(c.Key)
		return ok && holds(v)
	}
	_, vals := r.rng(c.Key, c.RangeEnd)
	if len(vals) == 0 {
		return false
	}
	for _, v := range vals {
		if !holds(v) {
			return false
		}
	}
	return true
}

func vhArbCompare(maxK int) *regattapb.Compare {
	c := &regattapb.Compare{Key: vhArbKey(1, maxK), Target: regattapb.Compare_VALUE}
	c.Result = regattapb.Compare_CompareResult(verif.Byte() & 3) // EQUAL, GREATER, LESS, NOT_EQUAL
	if verif.Bool() {
		c.TargetUnion = &regattapb.Compare_Value{Value: verif.Bytes(1)}
	}
	if verif.Bool() {
		c.RangeEnd = vhArbKey(1, maxK)
	}
	return c
}

// vhArbOp returns an arbitrary transaction operation together with the
// function that applies it to the reference map and checks its response.
func vhArbOp(maxK int) (*regattapb.RequestOp, func(r *vhRef, resp *regattapb.ResponseOp, what string)) {
	switch verif.Choice(3) {
	case 0:
		a := vhArbKey(1, maxK)
		var b []byte
		if verif.Bool() {
			b = vhArbKey(1, maxK)
		}
		keysOnly, countOnly := verif.Bool(), verif.Bool()
		verif.Assume(!(keysOnly && countOnly))
		op := &regattapb.RequestOp{Request: &regattapb.RequestOp_RequestRange{RequestRange: &regattapb.RequestOp_Range{Key: a, RangeEnd: b, KeysOnly: keysOnly, CountOnly: countOnly}}}
		return op, func(r *vhRef, resp *regattapb.ResponseOp, what string) {
			rr, ok := resp.Response.(*regattapb.ResponseOp_ResponseRange)
			verif.Assert(ok && rr.ResponseRange != nil, what+": n-th response is a range response")
			if !ok || rr.ResponseRange == nil {
				return
			}
			var wk, wv [][]byte
			if b == nil {
				wk, wv = vhSingleAsRange(r, a)
			} else {
				wk, wv = r.rng(a, b)
			}
			verif.Assert(rr.ResponseRange.Count == int64(len(wk)), what+": range count")
			if countOnly {
				verif.Assert(len(rr.ResponseRange.Kvs) == 0, what+": count-only returns no pair")
			} else {
				vhSameKVs(rr.ResponseRange.Kvs, wk, wv, !keysOnly, what+": range sees the earlier operations")
			}
		}
	case 1:
		k, v, prev := vhArbKey(1, maxK), vhArbKey(0, 1), verif.Bool()
		op := &regattapb.RequestOp{Request: &regattapb.RequestOp_RequestPut{RequestPut: &regattapb.RequestOp_Put{Key: k, Value: v, PrevKv: prev}}}
		return op, func(r *vhRef, resp *regattapb.ResponseOp, what string) {
			old, had := r.get(k)
			vhPutResp(resp, old, had, k, prev, what+": put")
			r.put(k, v)
		}
	default:
		a := vhArbKey(1, maxK)
		var b []byte
		if verif.Bool() {
			b = vhArbKey(1, maxK)
		}
		prev, count := verif.Bool(), verif.Bool()
		op := &regattapb.RequestOp{Request: &regattapb.RequestOp_RequestDeleteRange{RequestDeleteRange: &regattapb.RequestOp_DeleteRange{Key: a, RangeEnd: b, PrevKv: prev, Count: count}}}
		return op, func(r *vhRef, resp *regattapb.ResponseOp, what string) {
			var wk, wv [][]byte
			if b == nil {
				wk, wv = vhSingleAsRange(r, a)
				r.del(a)
			} else {
				wk, wv = r.rng(a, b)
				r.delRange(a, b)
			}
			vhDelResp(resp, wk, wv, prev, count, what+": delete")
		}
	}
}

// VH_C02_txn: an arbitrary transaction (nCmp predicates, nOps operations in
// each branch) on an arbitrary state: predicate conjunction per the
// documented semantics, exactly the chosen branch executed in order with each
// operation seeing the earlier ones, n-th response for n-th operation, the
// other branch without effect.
func VH_C02_txn(nCmp, nOps, maxN, maxK int) {
	db := vhOpenDB()
	ref := vhArbitraryStateSys(db, maxN, maxK, -1, true)
	f := vhFSM(db, nil)
	txn := &regattapb.Txn{}
	for i := 0; i < nCmp; i++ {
		txn.Compare = append(txn.Compare, vhArbCompare(maxK))
	}
	var succ, fail []func(r *vhRef, resp *regattapb.ResponseOp, what string)
	for i := 0; i < nOps; i++ {
		op, chk := vhArbOp(maxK)
		txn.Success, succ = append(txn.Success, op), append(succ, chk)
	}
	// the failure branch: one fixed-shape put with arbitrary key, so that "the other branch has no effect" is observable
	fk, fv := vhArbKey(1, maxK), verif.Bytes(1)
	txn.Failure = []*regattapb.RequestOp{{Request: &regattapb.RequestOp_RequestPut{RequestPut: &regattapb.RequestOp_Put{Key: fk, Value: fv, PrevKv: true}}}}
	fail = append(fail, func(r *vhRef, resp *regattapb.ResponseOp, what string) {
		old, had := r.get(fk)
		vhPutResp(resp, old, had, fk, true, what+": put")
		r.put(fk, fv)
	})

	want := true
	for _, c := range txn.Compare {
		if !vhSpecCompareOne(ref, c) {
			want = false
		}
	}
	idx := vhIndex(false)
	out, err := f.Update([]sm.Entry{vhEntry(idx, &regattapb.Command{Table: []byte("t"), Type: regattapb.Command_TXN, Txn: txn})})
	verif.Assert(err == nil && len(out) == 1, "transaction applies")
	if err != nil || len(out) != 1 {
		return
	}
	succeeded := out[0].Result.Value == uint64(ResultSuccess)
	verif.Assert(succeeded == want, "succeeded == conjunction of the predicates on the state before the transaction")
	res := vhResult(out[0])
	branch := succ
	if !want {
		branch = fail
		verif.Cover("failure-branch")
	} else {
		verif.Cover("success-branch")
	}
	verif.Assert(len(res.Responses) == len(branch), "one response per operation of the executed branch")
	if len(res.Responses) == len(branch) {
		for i, chk := range branch {
			chk(ref, res.Responses[i], "op")
		}
	}
	ref.hasIndex, ref.index = true, idx
	vhWholeTable(f, ref, "after the transaction")
	vhCheckIndex(f, ref)
	verif.Cover("end")
}

// VH_C02_readonly: a transaction of range reads answered on the read path
// (FSM.Lookup) returns what the same transaction returns through the log.
func VH_C02_readonly(nCmp, maxN, maxK int) {
	db := vhOpenDB()
	ref := vhArbitraryStateSys(db, maxN, maxK, -1, true)
	f := vhFSM(db, nil)
	req := &regattapb.TxnRequest{Table: []byte("t")}
	for i := 0; i < nCmp; i++ {
		req.Compare = append(req.Compare, vhArbCompare(maxK))
	}
	a := vhArbKey(1, maxK)
	var b []byte
	if verif.Bool() {
		b = vhArbKey(1, maxK)
	}
	req.Success = []*regattapb.RequestOp{{Request: &regattapb.RequestOp_RequestRange{RequestRange: &regattapb.RequestOp_Range{Key: a, RangeEnd: b}}}}
	req.Failure = []*regattapb.RequestOp{{Request: &regattapb.RequestOp_RequestRange{RequestRange: &regattapb.RequestOp_Range{Key: []byte{0}, RangeEnd: wildcard, CountOnly: true}}}}
	verif.Assert(req.IsReadonly(), "harness: read-only transaction")
	out, err := f.Lookup(req)
	verif.Assert(err == nil, "read-only transaction answered")
	ro := out.(*regattapb.TxnResponse)
	want := true
	for _, c := range req.Compare {
		if !vhSpecCompareOne(ref, c) {
			want = false
		}
	}
	verif.Assert(ro.Succeeded == want, "read path: succeeded == predicate conjunction")
	verif.Assert(len(ro.Responses) == 1, "read path: one response")
	if len(ro.Responses) == 1 {
		rr, ok := ro.Responses[0].Response.(*regattapb.ResponseOp_ResponseRange)
		verif.Assert(ok, "read path: range response")
		if ok {
			if want {
				var wk, wv [][]byte
				if b == nil {
					wk, wv = vhSingleAsRange(ref, a)
				} else {
					wk, wv = ref.rng(a, b)
				}
				verif.Assert(rr.ResponseRange.Count == int64(len(wk)), "read path: count")
				vhSameKVs(rr.ResponseRange.Kvs, wk, wv, true, "read path: same answer as the operations on the same state")
			} else {
				verif.Assert(rr.ResponseRange.Count == int64(len(ref.keys)), "read path: failure branch answered")
			}
		}
	}
	verif.Cover("end")
}

func VH_C02_vacuity() {
	db := vhOpenDB()
	ref := vhArbitraryStateSys(db, 1, 1, -1, true)
	verif.Assume(len(ref.keys) == 1)
	f := vhFSM(db, nil)
	txn := &regattapb.Txn{Compare: []*regattapb.Compare{{Key: ref.keys[0]}}}
	out, err := f.Update([]sm.Entry{vhEntry(1, &regattapb.Command{Table: []byte("t"), Type: regattapb.Command_TXN, Txn: txn})})
	verif.Assume(err == nil && out[0].Result.Value == uint64(ResultSuccess))
	verif.Assert(false, "vacuity")
}

// VH_C02_inbatch: a transaction embedded after a plain write in the same
// apply batch (two entries in one apply call, or one command sequence): its
// predicates see the state immediately before it — including the earlier
// write of the same batch — and exactly one branch runs.
func VH_C02_inbatch(asSequence, maxN, maxK int) {
	db := vhOpenDB()
	ref := vhArbitraryStateSys(db, maxN, maxK, -1, true)
	f := vhFSM(db, nil)
	first := &regattapb.Command{Table: []byte("t")}
	wk := vhArbKey(1, maxK)
	switch verif.Choice(3) {
	case 0:
		wv := verif.Bytes(1)
		first.Type, first.Kv = regattapb.Command_PUT, &regattapb.KeyValue{Key: wk, Value: wv}
		ref.put(wk, wv)
	case 1:
		first.Type, first.Kv = regattapb.Command_DELETE, &regattapb.KeyValue{Key: wk}
		ref.del(wk)
	default:
		first.Type, first.Kv, first.RangeEnd = regattapb.Command_DELETE, &regattapb.KeyValue{Key: wk}, wildcard
		ref.delRange(wk, wildcard)
	}
	cmp := vhArbCompare(maxK)
	sk, sv, fk, fv := vhArbKey(1, maxK), verif.Bytes(1), vhArbKey(1, maxK), verif.Bytes(1)
	txn := &regattapb.Command{Table: []byte("t"), Type: regattapb.Command_TXN, Txn: &regattapb.Txn{
		Compare: []*regattapb.Compare{cmp},
		Success: []*regattapb.RequestOp{{Request: &regattapb.RequestOp_RequestPut{RequestPut: &regattapb.RequestOp_Put{Key: sk, Value: sv, PrevKv: true}}}},
		Failure: []*regattapb.RequestOp{{Request: &regattapb.RequestOp_RequestPut{RequestPut: &regattapb.RequestOp_Put{Key: fk, Value: fv, PrevKv: true}}}},
	}}
	want := vhSpecCompareOne(ref, cmp)
	var txnRes *regattapb.CommandResult
	var last uint64
	if asSequence != 0 {
		out, err := f.Update([]sm.Entry{vhEntry(5, &regattapb.Command{Table: []byte("t"), Type: regattapb.Command_SEQUENCE, Sequence: []*regattapb.Command{first, txn}})})
		verif.Assert(err == nil && len(out) == 1, "sequence applies")
		all := vhResult(out[0])
		verif.Assert(len(all.Responses) == 2, "sequence: response of the write, then of the transaction's operation")
		if len(all.Responses) != 2 {
			return
		}
		txnRes = &regattapb.CommandResult{Responses: all.Responses[1:]}
		last = 5
	} else {
		out, err := f.Update([]sm.Entry{vhEntry(5, first), vhEntry(6, txn)})
		verif.Assert(err == nil && len(out) == 2, "both entries apply")
		verif.Assert((out[1].Result.Value == uint64(ResultSuccess)) == want, "succeeded == predicates on the state immediately before the transaction (incl. the earlier write of the batch)")
		txnRes = vhResult(out[1])
		last = 6
	}
	verif.Assert(len(txnRes.Responses) == 1, "exactly one branch operation executed")
	if len(txnRes.Responses) == 1 {
		if want {
			old, had := ref.get(sk)
			vhPutResp(txnRes.Responses[0], old, had, sk, true, "success branch put")
			ref.put(sk, sv)
			verif.Cover("success-branch")
		} else {
			old, had := ref.get(fk)
			vhPutResp(txnRes.Responses[0], old, had, fk, true, "failure branch put")
			ref.put(fk, fv)
			verif.Cover("failure-branch")
		}
	}
	ref.hasIndex, ref.index = true, last
	vhWholeTable(f, ref, "after the batch")
	verif.Cover("end")
}

// vhROAnswer: what a read-only transaction "if value(k) == v then get k else
// get k" must answer on state r: (succeeded, value or absent).
func vhROAnswerIs(ro *regattapb.TxnResponse, r *vhRef, k, v []byte) bool {
	cur, has := r.get(k)
	want := has && bytes.Equal(cur, v)
	if ro.Succeeded != want || len(ro.Responses) != 1 {
		return false
	}
	rr := ro.Responses[0].GetResponseRange()
	if rr == nil {
		return false
	}
	if !has {
		return rr.Count == 0 && len(rr.Kvs) == 0
	}
	return rr.Count == 1 && len(rr.Kvs) == 1 && bytes.Equal(rr.Kvs[0].Key, k) && bytes.Equal(rr.Kvs[0].Value, cur)
}

// VH_C02_readonly_concurrent: a read-only transaction evaluated while a write
// to the key it looks at is applied, under every interleaving of their
// database operations: predicate and reads come from ONE state - the answer
// is the answer on the state before the write or on the state after it.
// Engine only.
func VH_C02_readonly_concurrent() {
	db := vhOpenDB()
	ref := vhArbitraryStateSys(db, 1, 1, -1, true)
	verif.Assume(ref.index < 1<<62)
	f := vhFSM(db, nil)
	k, v, nv := verif.Bytes(1), verif.Bytes(1), verif.Bytes(1)
	after := ref.clone()
	after.put(k, nv)
	rng := &regattapb.RequestOp{Request: &regattapb.RequestOp_RequestRange{RequestRange: &regattapb.RequestOp_Range{Key: k}}}
	req := &regattapb.TxnRequest{Table: []byte("t"),
		Compare: []*regattapb.Compare{{Key: k, Result: regattapb.Compare_EQUAL, Target: regattapb.Compare_VALUE, TargetUnion: &regattapb.Compare_Value{Value: v}}},
		Success: []*regattapb.RequestOp{rng}, Failure: []*regattapb.RequestOp{rng}}
	verif.Assert(req.IsReadonly(), "harness: read-only transaction")
	done := make(chan struct{})
	verif.YieldAtDB(true)
	go func() {
		_, err := f.Update([]sm.Entry{vhEntry(ref.index+1, &regattapb.Command{Table: []byte("t"), Type: regattapb.Command_PUT, Kv: &regattapb.KeyValue{Key: k, Value: nv}})})
		verif.Assert(err == nil, "concurrent apply succeeds")
		close(done)
	}()
	out, err := f.Lookup(req)
	<-done
	verif.YieldAtDB(false)
	verif.Assert(err == nil, "read-only transaction answered")
	if err != nil {
		return
	}
	ro := out.(*regattapb.TxnResponse)
	verif.Assert(vhROAnswerIs(ro, ref, k, v) || vhROAnswerIs(ro, after, k, v), "a read-only transaction racing with a write answers from one state: the one before or the one after")
	verif.Cover("end")
}
