//go:build verif

package fsm

import (
	"github.com/jamf/regatta/internal/verif"
	"github.com/jamf/regatta/regattapb"
	sm "github.com/lni/dragonboat/v4/statemachine"
)

// VH_C01_reads: every read of an arbitrary state equals the reference map
// (which: 0 single key, 1 range, 2 bookkeeping).
func VH_C01_reads(which, maxN, maxK, maxV int) {
	db := vhOpenDB()
	ref := vhArbitraryStateSys(db, maxN, maxK, maxV, which != 2)
	f := vhFSM(db, nil)
	vhCheckRead(f, ref, maxK, which)
	verif.Cover("end")
}

func VH_C01_vacuity(maxN, maxK, maxV int) {
	db := vhOpenDB()
	ref := vhArbitraryState(db, maxN, maxK, maxV)
	verif.Assume(len(ref.keys) == maxN)
	f := vhFSM(db, nil)
	out, err := f.Lookup(&regattapb.RequestOp_Range{Key: ref.keys[0]})
	verif.Assume(err == nil && out.(*regattapb.ResponseOp_Range).Count == 1)
	verif.Assert(false, "vacuity")
}

var _ = sm.Entry{}

// vhWholeTable reads the complete user content through the real range path
// ("\x00" .. wildcard) and compares it with the reference map.
func vhWholeTable(f *FSM, r *vhRef, what string) {
	out, err := f.Lookup(&regattapb.RequestOp_Range{Key: []byte{0}, RangeEnd: wildcard})
	verif.Assert(err == nil, what+": whole-table read succeeds")
	resp := out.(*regattapb.ResponseOp_Range)
	verif.Assert(resp.Count == int64(len(r.keys)) && !resp.More, what+": whole-table count")
	vhSameKVs(resp.Kvs, r.keys, r.vals, true, what+": table content == reference map")
}

func vhPutResp(op *regattapb.ResponseOp, pre []byte, had bool, k []byte, prevKv bool, what string) {
	pr, ok := op.Response.(*regattapb.ResponseOp_ResponsePut)
	verif.Assert(ok && pr.ResponsePut != nil, what+": response is a put response")
	if !ok || pr.ResponsePut == nil {
		return
	}
	if prevKv && had {
		verif.Assert(pr.ResponsePut.PrevKv != nil, what+": previous pair reported")
		if pr.ResponsePut.PrevKv != nil {
			vhSameKVs([]*regattapb.KeyValue{pr.ResponsePut.PrevKv}, [][]byte{k}, [][]byte{pre}, true, what+": previous pair")
		}
	} else {
		verif.Assert(pr.ResponsePut.PrevKv == nil, what+": no previous pair when absent or not requested")
	}
}

func vhDelResp(op *regattapb.ResponseOp, wk, wv [][]byte, prevKv, count bool, what string) {
	dr, ok := op.Response.(*regattapb.ResponseOp_ResponseDeleteRange)
	verif.Assert(ok && dr.ResponseDeleteRange != nil, what+": response is a delete response")
	if !ok || dr.ResponseDeleteRange == nil {
		return
	}
	if count {
		verif.Assert(dr.ResponseDeleteRange.Deleted == int64(len(wk)), what+": deleted count")
	}
	if prevKv {
		vhSameKVs(dr.ResponseDeleteRange.PrevKvs, wk, wv, true, what+": previous pairs")
	} else {
		verif.Assert(len(dr.ResponseDeleteRange.PrevKvs) == 0, what+": no previous pairs unless requested")
	}
	if !count && !prevKv {
		verif.Assert(dr.ResponseDeleteRange.Deleted == 0, what+": nothing reported unless requested")
	}
}

func vhSingleAsRange(r *vhRef, k []byte) (wk, wv [][]byte) {
	if v, ok := r.get(k); ok {
		return [][]byte{k}, [][]byte{v}
	}
	return nil, nil
}

// VH_C01_step: one committed command of the given kind from an arbitrary
// state; response and complete post-state against the reference map; applied
// index == the entry's index; leader index only moves when the entry says so.
// kind: 0 put, 1 delete, 2 delete range, 3 put batch, 4 delete batch, 5 sequence(put, delete range), 6 no-op, 7 sequence(delete range, reading command)
func VH_C01_step(kind, maxN, maxK, maxV, wide int) {
	db := vhOpenDB()
	ref := vhArbitraryStateSys(db, maxN, maxK, maxV, true)
	if maxV < 0 {
		maxV = -maxV
	}
	f := vhFSM(db, nil)
	idx := vhIndex(wide != 0)
	cmd := &regattapb.Command{Table: []byte("t")}
	if kind == 6 && verif.Bool() {
		// bookkeeping is independent of the command kind: the leader index
		// variants are explored with the no-op command (and in C03)
		li := vhIndex(wide != 0)
		cmd.LeaderIndex = &li
		ref.hasLeader, ref.leader = true, li
	}
	pre := ref.clone()
	var check func(res *regattapb.CommandResult)
	switch kind {
	case 0:
		k, v, prev := vhArbKey(1, maxK), vhArbKey(0, maxV), verif.Bool()
		cmd.Type, cmd.Kv, cmd.PrevKvs = regattapb.Command_PUT, &regattapb.KeyValue{Key: k, Value: v}, prev
		ref.put(k, v)
		check = func(res *regattapb.CommandResult) {
			verif.Assert(len(res.Responses) == 1, "put: one response")
			if len(res.Responses) == 1 {
				old, had := pre.get(k)
				vhPutResp(res.Responses[0], old, had, k, prev, "put")
			}
		}
	case 1:
		k, prev, count := vhArbKey(1, maxK), verif.Bool(), verif.Bool()
		cmd.Type, cmd.Kv, cmd.PrevKvs, cmd.Count = regattapb.Command_DELETE, &regattapb.KeyValue{Key: k}, prev, count
		ref.del(k)
		check = func(res *regattapb.CommandResult) {
			verif.Assert(len(res.Responses) == 1, "delete: one response")
			if len(res.Responses) == 1 {
				wk, wv := vhSingleAsRange(pre, k)
				vhDelResp(res.Responses[0], wk, wv, prev, count, "delete")
			}
		}
	case 2:
		a, b, prev, count := vhArbKey(1, maxK), vhArbKey(0, maxK), verif.Bool(), verif.Bool()
		cmd.Type, cmd.Kv, cmd.RangeEnd, cmd.PrevKvs, cmd.Count = regattapb.Command_DELETE, &regattapb.KeyValue{Key: a}, b, prev, count
		ref.delRange(a, b)
		check = func(res *regattapb.CommandResult) {
			verif.Assert(len(res.Responses) == 1, "delete range: one response")
			if len(res.Responses) == 1 {
				wk, wv := pre.rng(a, b)
				vhDelResp(res.Responses[0], wk, wv, prev, count, "delete range")
			}
		}
	case 3:
		k1, v1, k2, v2 := vhArbKey(1, maxK), vhArbKey(0, maxV), vhArbKey(1, maxK), vhArbKey(0, maxV)
		cmd.Type, cmd.Batch = regattapb.Command_PUT_BATCH, []*regattapb.KeyValue{{Key: k1, Value: v1}, {Key: k2, Value: v2}}
		ref.put(k1, v1)
		ref.put(k2, v2)
		check = func(res *regattapb.CommandResult) {
			verif.Assert(len(res.Responses) == 2, "put batch: one response per element")
			for _, op := range res.Responses {
				vhPutResp(op, nil, false, nil, false, "put batch")
			}
		}
	case 4:
		k1, k2 := vhArbKey(1, maxK), vhArbKey(1, maxK)
		cmd.Type, cmd.Batch = regattapb.Command_DELETE_BATCH, []*regattapb.KeyValue{{Key: k1}, {Key: k2}}
		ref.del(k1)
		ref.del(k2)
		check = func(res *regattapb.CommandResult) {
			verif.Assert(len(res.Responses) == 2, "delete batch: one response per element")
			for _, op := range res.Responses {
				vhDelResp(op, nil, nil, false, false, "delete batch")
			}
		}
	case 5:
		k, v := vhArbKey(1, maxK), vhArbKey(0, maxV)
		a, b, prev, count := vhArbKey(1, maxK), vhArbKey(0, maxK), verif.Bool(), verif.Bool()
		cmd.Type = regattapb.Command_SEQUENCE
		cmd.Sequence = []*regattapb.Command{
			{Table: []byte("t"), Type: regattapb.Command_PUT, Kv: &regattapb.KeyValue{Key: k, Value: v}, PrevKvs: true},
			{Table: []byte("t"), Type: regattapb.Command_DELETE, Kv: &regattapb.KeyValue{Key: a}, RangeEnd: b, PrevKvs: prev, Count: count},
		}
		ref.put(k, v)
		mid := ref.clone()
		ref.delRange(a, b)
		check = func(res *regattapb.CommandResult) {
			verif.Assert(len(res.Responses) == 2, "sequence: responses of all elements, in order")
			if len(res.Responses) == 2 {
				old, had := pre.get(k)
				vhPutResp(res.Responses[0], old, had, k, true, "sequence/put")
				wk, wv := mid.rng(a, b)
				vhDelResp(res.Responses[1], wk, wv, prev, count, "sequence/delete range (sees the put)")
			}
		}
	case 7:
		// a range delete followed, in the same batch, by a command whose response reads the state
		a, b := vhArbKey(1, maxK), vhArbKey(0, maxK)
		first := &regattapb.Command{Table: []byte("t"), Type: regattapb.Command_DELETE, Kv: &regattapb.KeyValue{Key: a}, RangeEnd: b}
		ref.delRange(a, b)
		mid := ref.clone()
		second := &regattapb.Command{Table: []byte("t")}
		k := vhArbKey(1, maxK)
		var check2 func(op *regattapb.ResponseOp)
		switch verif.Choice(3) {
		case 0:
			v := vhArbKey(0, maxV)
			second.Type, second.Kv, second.PrevKvs = regattapb.Command_PUT, &regattapb.KeyValue{Key: k, Value: v}, true
			ref.put(k, v)
			check2 = func(op *regattapb.ResponseOp) {
				old, had := mid.get(k)
				vhPutResp(op, old, had, k, true, "sequence/put after range delete")
			}
		case 1:
			second.Type, second.Kv, second.PrevKvs, second.Count = regattapb.Command_DELETE, &regattapb.KeyValue{Key: k}, true, true
			ref.del(k)
			check2 = func(op *regattapb.ResponseOp) {
				wk, wv := vhSingleAsRange(mid, k)
				vhDelResp(op, wk, wv, true, true, "sequence/delete after range delete")
			}
		default:
			second.Type, second.Kv, second.RangeEnd, second.PrevKvs, second.Count = regattapb.Command_DELETE, &regattapb.KeyValue{Key: k}, wildcard, true, true
			ref.delRange(k, wildcard)
			check2 = func(op *regattapb.ResponseOp) {
				wk, wv := mid.rng(k, wildcard)
				vhDelResp(op, wk, wv, true, true, "sequence/range delete after range delete")
			}
		}
		cmd.Type = regattapb.Command_SEQUENCE
		cmd.Sequence = []*regattapb.Command{first, second}
		check = func(res *regattapb.CommandResult) {
			verif.Assert(len(res.Responses) == 2, "sequence: responses of all elements, in order")
			if len(res.Responses) == 2 {
				vhDelResp(res.Responses[0], nil, nil, false, false, "sequence/first range delete")
				check2(res.Responses[1])
			}
		}
	default:
		cmd.Type = regattapb.Command_DUMMY
		check = func(res *regattapb.CommandResult) {
			verif.Assert(len(res.Responses) == 0, "no-op: no response")
		}
	}
	out, err := f.Update([]sm.Entry{vhEntry(idx, cmd)})
	verif.Assert(err == nil && len(out) == 1, "update succeeds")
	if err != nil || len(out) != 1 {
		return
	}
	verif.Assert(out[0].Result.Value == uint64(ResultSuccess), "update result is success")
	res := vhResult(out[0])
	if kind != 6 {
		verif.Assert(res.Revision == idx, "revision == log index")
	}
	check(res)
	ref.hasIndex, ref.index = true, idx
	vhWholeTable(f, ref, "after the command")
	vhCheckIndex(f, ref)
	verif.Cover("end")
}

// VH_C11_applied: what the state machine tells the applied-index listener.
// On a follower table (a leader index is recorded) the follower API waits
// for *leader* revisions, so every value reported must be a leader index the
// table has really reached: <= the persisted leader index at that moment.
func VH_C11_applied(m int) {
	db := vhOpenDB()
	ref := vhArbitraryStateSys(db, 0, 1, -1, true) // local and leader index arbitrary and unrelated
	var reported []uint64
	f := vhFSM(db, func(x uint64) { reported = append(reported, x) })
	var log []sm.Entry
	idx := ref.index
	for i := 0; i < m; i++ {
		idx += vhIndex(false)
		cmd := &regattapb.Command{Table: []byte("t"), Type: regattapb.Command_PUT, Kv: &regattapb.KeyValue{Key: verif.Bytes(1), Value: verif.Bytes(1)}}
		if verif.Bool() {
			li := vhIndex(false)
			cmd.LeaderIndex = &li
		} else {
			verif.Cover("entry-without-leader-index")
		}
		log = append(log, vhEntry(idx, cmd))
	}
	verif.Assume(ref.index < 1<<62)
	verif.Assume(ref.leader != 0) // a follower table: a (non-reset) leader index is recorded
	_, err := f.Update(log)
	verif.Assert(err == nil, "update succeeds")
	persisted := vhReadIndex(f, true)
	for _, x := range reported {
		verif.Assert(x <= persisted, "the listener of a follower table is only told leader indices the table has reached")
	}
	verif.Cover("end")
}

// VH_C01_bigrange: a range delete over more data than one read chunk
// (maxRangeSize, ~4 MiB) holds: n pairs with values of vKiB KiB each. The
// reported count and previous pairs are those of the whole range, as for
// small values.
func VH_C01_bigrange(n, vKiB int) {
	db := vhOpenDB()
	ref := &vhRef{}
	for i := 0; i < n; i++ {
		k := []byte{byte('a' + i)}
		v := make([]byte, vKiB<<10)
		v[0] = verif.Byte()
		vhSet(db, k, v)
		ref.keys, ref.vals = append(ref.keys, k), append(ref.vals, v)
	}
	f := vhFSM(db, nil)
	prev, count := verif.Bool(), verif.Bool()
	cmd := &regattapb.Command{Table: []byte("t"), Type: regattapb.Command_DELETE, Kv: &regattapb.KeyValue{Key: []byte{0}}, RangeEnd: []byte{0}, PrevKvs: prev, Count: count}
	out, err := f.Update([]sm.Entry{vhEntry(5, cmd)})
	verif.Assert(err == nil && len(out) == 1, "update succeeds")
	if err != nil || len(out) != 1 {
		return
	}
	res := vhResult(out[0])
	verif.Assert(len(res.Responses) == 1, "delete range: one response")
	if len(res.Responses) == 1 {
		vhDelResp(res.Responses[0], ref.keys, ref.vals, prev, count, "delete range over more than one read chunk")
	}
	w := vhWhole(f)
	verif.Assert(w.Count == 0 && len(w.Kvs) == 0, "delete range over more than one read chunk: everything deleted")
	verif.Cover("end")
}

// vhSimpleCmd: an arbitrary put / single-key delete / range delete (kind 0..2)
// with its expected response on state r, which it updates.
func vhSimpleCmd(kind int, r *vhRef, maxK int, what string) (*regattapb.Command, func(res *regattapb.CommandResult)) {
	cmd := &regattapb.Command{Table: []byte("t")}
	pre := r.clone()
	switch kind {
	case 0:
		k, v, prev := vhArbKey(1, maxK), vhArbKey(0, 1), verif.Bool()
		cmd.Type, cmd.Kv, cmd.PrevKvs = regattapb.Command_PUT, &regattapb.KeyValue{Key: k, Value: v}, prev
		r.put(k, v)
		return cmd, func(res *regattapb.CommandResult) {
			verif.Assert(len(res.Responses) == 1, what+"put: one response")
			if len(res.Responses) == 1 {
				old, had := pre.get(k)
				vhPutResp(res.Responses[0], old, had, k, prev, what+"put")
			}
		}
	case 1:
		k, prev, count := vhArbKey(1, maxK), verif.Bool(), verif.Bool()
		cmd.Type, cmd.Kv, cmd.PrevKvs, cmd.Count = regattapb.Command_DELETE, &regattapb.KeyValue{Key: k}, prev, count
		r.del(k)
		return cmd, func(res *regattapb.CommandResult) {
			verif.Assert(len(res.Responses) == 1, what+"delete: one response")
			if len(res.Responses) == 1 {
				wk, wv := vhSingleAsRange(pre, k)
				vhDelResp(res.Responses[0], wk, wv, prev, count, what+"delete")
			}
		}
	default:
		a, b, prev, count := vhArbKey(1, maxK), vhArbKey(0, maxK), verif.Bool(), verif.Bool()
		cmd.Type, cmd.Kv, cmd.RangeEnd, cmd.PrevKvs, cmd.Count = regattapb.Command_DELETE, &regattapb.KeyValue{Key: a}, b, prev, count
		r.delRange(a, b)
		return cmd, func(res *regattapb.CommandResult) {
			verif.Assert(len(res.Responses) == 1, what+"delete range: one response")
			if len(res.Responses) == 1 {
				wk, wv := pre.rng(a, b)
				vhDelResp(res.Responses[0], wk, wv, prev, count, what+"delete range")
			}
		}
	}
}

// VH_C01_pair: two arbitrary plain commands (kinds k1, k2: put / delete /
// delete range) delivered in ONE apply call from an arbitrary state: each
// response is the reference map's answer at that point of the sequence and
// the final content is the reference's. (A command must not inherit anything
// from the one decoded before it.)
func VH_C01_pair(k1, k2, maxN int) {
	db := vhOpenDB()
	ref := vhArbitraryStateSys(db, maxN, 1, -1, true)
	f := vhFSM(db, nil)
	idx := vhIndex(false)
	c1, chk1 := vhSimpleCmd(k1, ref, 1, "first/")
	c2, chk2 := vhSimpleCmd(k2, ref, 1, "second/")
	out, err := f.Update([]sm.Entry{vhEntry(idx, c1), vhEntry(idx+1, c2)})
	verif.Assert(err == nil && len(out) == 2, "update succeeds")
	if err != nil || len(out) != 2 {
		return
	}
	chk1(vhResult(out[0]))
	chk2(vhResult(out[1]))
	vhWholeTable(f, ref, "after the apply call")
	verif.Assert(vhReadIndex(f, false) == idx+1, "applied index is the last entry's")
	verif.Cover("end")
}
