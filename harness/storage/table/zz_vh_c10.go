//go:build verif

package table

import (
	"context"

	"github.com/jamf/regatta/internal/verif"
	"github.com/jamf/regatta/regattapb"
	"github.com/jamf/regatta/storage/table/fsm"
	"github.com/lni/dragonboat/v4/client"
	sm "github.com/lni/dragonboat/v4/statemachine"
)

// vhHost is M2: a shard as "the real state machine behind a totally ordered
// log". A proposal is appended at the next index and applied by the real
// FSM.Update; reads run the real FSM.Lookup. It records which read path was used.
type vhHost struct {
	f         *fsm.FSM
	next      uint64 // index the next proposal gets
	syncReads int
	stale     int
	proposals int
	lastCmd   []byte
}

func (h *vhHost) SyncRead(ctx context.Context, id uint64, req interface{}) (interface{}, error) {
	h.syncReads++
	return h.f.Lookup(req)
}
func (h *vhHost) StaleRead(id uint64, req interface{}) (interface{}, error) {
	h.stale++
	return h.f.Lookup(req)
}
func (h *vhHost) SyncPropose(ctx context.Context, s *client.Session, cmd []byte) (sm.Result, error) {
	h.proposals++
	h.lastCmd = cmd
	out, err := h.f.Update([]sm.Entry{{Index: h.next, Cmd: cmd}})
	if err != nil {
		return sm.Result{}, err
	}
	h.next++
	return out[0].Result, nil
}
func (h *vhHost) GetNoOPSession(id uint64) *client.Session { return nil }

func vhIndex(wide bool) uint64 {
	if !wide {
		return 1 + uint64(verif.Byte()&0x3f)
	}
	x := verif.Uint64()
	verif.Assume(x != 0 && x != ^uint64(0))
	return x
}

func vhTable(wide bool) (*vhHost, ActiveTable) {
	h := &vhHost{f: fsm.VHNewFSM(nil), next: vhIndex(wide)}
	return h, Table{Name: "t", ClusterID: 10001}.AsActive(h)
}

// VH_C10_revision: every acknowledged mutation reports revision == its log
// index (non-zero), whatever branch a transaction takes.
// kind: 0 put, 1 delete, 2 delete range, 3 txn (taken branch empty), 4 txn (taken branch has a put), 5 txn (taken branch only reads, other branch writes)
func VH_C10_revision(kind, wide int) {
	h, t := vhTable(wide != 0)
	ctx := context.Background()
	idx := h.next
	k := verif.Bytes(1)
	switch kind {
	case 0:
		r, err := t.Put(ctx, &regattapb.PutRequest{Table: []byte("t"), Key: k, Value: verif.Bytes(1), PrevKv: verif.Bool()})
		verif.Assert(err == nil && r != nil, "put acknowledged")
		verif.Assert(r.Header != nil && r.Header.Revision == idx, "put revision == log index")
	case 1:
		r, err := t.Delete(ctx, &regattapb.DeleteRangeRequest{Table: []byte("t"), Key: k, PrevKv: verif.Bool(), Count: verif.Bool()})
		verif.Assert(err == nil && r != nil, "delete acknowledged")
		verif.Assert(r.Header != nil && r.Header.Revision == idx, "delete revision == log index")
	case 2:
		r, err := t.Delete(ctx, &regattapb.DeleteRangeRequest{Table: []byte("t"), Key: k, RangeEnd: verif.Bytes(1), PrevKv: verif.Bool(), Count: verif.Bool()})
		verif.Assert(err == nil && r != nil, "delete range acknowledged")
		verif.Assert(r.Header != nil && r.Header.Revision == idx, "delete range revision == log index")
	default:
		put := &regattapb.RequestOp{Request: &regattapb.RequestOp_RequestPut{RequestPut: &regattapb.RequestOp_Put{Key: k, Value: verif.Bytes(1)}}}
		rng := &regattapb.RequestOp{Request: &regattapb.RequestOp_RequestRange{RequestRange: &regattapb.RequestOp_Range{Key: k}}}
		req := &regattapb.TxnRequest{Table: []byte("t")}
		// no compare: the success branch is taken
		switch kind {
		case 3:
			req.Failure = []*regattapb.RequestOp{put} // not read-only; taken branch empty
		case 4:
			req.Success = []*regattapb.RequestOp{put}
		default:
			req.Success = []*regattapb.RequestOp{rng}
			req.Failure = []*regattapb.RequestOp{put}
		}
		r, err := t.Txn(ctx, req)
		verif.Assert(err == nil && r != nil, "transaction acknowledged")
		verif.Assert(h.proposals == 1, "a transaction that can write goes through the log")
		verif.Assert(r.Succeeded, "empty predicate list succeeds")
		verif.Assert(r.Header != nil && r.Header.Revision == idx, "transaction revision == log index, also when the taken branch is empty")
	}
	// the next mutation gets a strictly larger revision
	r2, err := t.Put(ctx, &regattapb.PutRequest{Table: []byte("t"), Key: k, Value: []byte("x")})
	verif.Assert(err == nil && r2.Header.Revision > idx, "revisions strictly increase in commit order")
	verif.Cover("end")
}

// VH_C10_readpath: linearizable reads and read-only transactions use the
// linearizable read path; default reads the local one; both return the
// state machine's answer.
func VH_C10_readpath() {
	h, t := vhTable(false)
	ctx := context.Background()
	k, v := verif.Bytes(1), verif.Bytes(1)
	_, err := t.Put(ctx, &regattapb.PutRequest{Table: []byte("t"), Key: k, Value: v})
	verif.Assert(err == nil, "put acknowledged")
	lin := verif.Bool()
	r, err := t.Range(ctx, &regattapb.RangeRequest{Table: []byte("t"), Key: k, Linearizable: lin})
	verif.Assert(err == nil && r.Count == 1 && len(r.Kvs) == 1 && r.Kvs[0].Value[0] == v[0], "read after acknowledged write observes it")
	if lin {
		verif.Assert(h.syncReads == 1 && h.stale == 0, "linearizable read uses the linearizable path")
		verif.Cover("linearizable")
	} else {
		verif.Assert(h.syncReads == 0 && h.stale == 1, "default read uses the local path")
	}
	h.syncReads, h.stale = 0, 0
	it, err := t.Iterator(ctx, &regattapb.RangeRequest{Table: []byte("t"), Key: k, RangeEnd: []byte{0}, Linearizable: lin})
	verif.Assert(err == nil && it != nil, "iterator read succeeds")
	verif.Assert((h.syncReads == 1) == lin && (h.stale == 1) == !lin, "streamed read honours linearizable too")
	h.syncReads, h.stale = 0, 0
	ro := &regattapb.TxnRequest{Table: []byte("t"), Success: []*regattapb.RequestOp{{Request: &regattapb.RequestOp_RequestRange{RequestRange: &regattapb.RequestOp_Range{Key: k}}}}}
	tr, err := t.Txn(ctx, ro)
	verif.Assert(err == nil && tr.Succeeded && len(tr.Responses) == 1, "read-only transaction answered")
	verif.Assert(h.syncReads == 1 && h.stale == 0 && h.proposals == 1, "read-only transaction uses the linearizable read path, not the log")
	verif.Cover("end")
}

func VH_C10_vacuity() {
	h, t := vhTable(false)
	idx := h.next
	r, err := t.Put(context.Background(), &regattapb.PutRequest{Table: []byte("t"), Key: []byte("k"), Value: []byte("v")})
	verif.Assume(err == nil && r.Header.Revision == idx)
	verif.Assert(false, "vacuity")
}
