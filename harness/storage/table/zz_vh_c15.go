//go:build verif

package table

import (
	"encoding/json"
	"time"

	"github.com/jamf/regatta/internal/verif"
	"github.com/jamf/regatta/storage/kv"
	"github.com/lni/dragonboat/v4"
	"go.uber.org/zap"
)

// vhHookStore lets the environment act between two store accesses of one call.
type vhHookStore struct {
	store
	gets     int
	afterGet func()
}

func (s *vhHookStore) Get(key string) (kv.Pair, error) {
	p, err := s.store.Get(key)
	s.gets++
	if s.gets == 1 && s.afterGet != nil {
		s.afterGet()
	}
	return p, err
}

func vhManagerOn(st store, node uint64) *Manager {
	return &Manager{store: st, cfg: Config{NodeID: node}, log: zap.NewNop().Sugar(), closed: make(chan struct{}), readyChan: make(chan struct{})}
}

// VHManager: a Manager over the given store and NodeHost (for harnesses of other packages).
func VHManager(st *kv.RaftStore, nh *dragonboat.NodeHost, node uint64) *Manager {
	m := vhManagerOn(st, node)
	m.nh = nh
	return m
}

// VHCatalogue registers table `name` with shard id `id` in the store's state machine.
func VHCatalogue(lf *kv.LFSM, name string, id uint64, ver uint64) {
	b, _ := json.Marshal(&Table{Name: name, ClusterID: id})
	kv.VHPutRaw(lf, kv.Pair{Key: storedTableName(name), Value: string(b), Ver: ver})
}

const vhLeaseKey = "/tables/t/lease"

func vhLeaseDuration() time.Duration {
	if verif.Bool() {
		return -time.Second // already expired when granted
	}
	return 10 * time.Second
}

type vhHolder struct {
	ok    bool
	until time.Time
}

func vhLeaseOp(m *Manager, h *vhHolder) {
	switch verif.Choice(3) {
	case 0:
	case 1:
		d := vhLeaseDuration()
		before := time.Now()
		if err := m.LeaseTable("t", d); err == nil {
			// the lease runs until (a clock reading inside the call) + d; take the earliest possible end
			h.ok, h.until = true, before.Add(d)
		} else {
			// a failed renewal does not extend anything; an earlier grant stays as it was
		}
	default:
		if ok, err := m.ReturnTable("t"); err == nil && ok {
			h.ok = false
		}
	}
}

// VH_C15_lease: two nodes and an arbitrary pre-existing lease record (absent,
// or owned by node 1, 2 or a third node, with arbitrary expiry). Node 1 makes
// a lease call; between its read and its write node 2 performs an arbitrary
// lease/renew/return call (or none); afterwards node 2 may act again. At the
// end at most one node holds an unexpired lease it was granted, a grant was
// only made over a free / own / expired record, and a return never removed
// another node's record.
func VH_C15_lease(window, tail int) {
	rs, lf, _, base := kv.VHNewStore()
	// arbitrary pre-existing record
	var pre Lease
	hasPre := verif.Bool()
	if hasPre {
		pre = Lease{ID: uint64(1 + verif.Concretize(verif.Int(), 0, 2)), Until: verif.Instant()}
		b, _ := json.Marshal(pre)
		ver := verif.Uint64()
		verif.Assume(ver >= 1 && ver < base)
		kv.VHPutRaw(lf, kv.Pair{Key: vhLeaseKey, Value: string(b), Ver: ver})
	}
	hook := &vhHookStore{store: rs}
	a, b := vhManagerOn(hook, 1), vhManagerOn(rs, 2)
	var ha, hb vhHolder
	// leases granted before this step: the pre-existing record is the only trace of them
	if hasPre && pre.ID == 1 {
		ha = vhHolder{ok: true, until: pre.Until}
	}
	if hasPre && pre.ID == 2 {
		hb = vhHolder{ok: true, until: pre.Until}
	}
	// between node 1's read and its write node 2 makes `window` arbitrary calls
	// (two calls allow a return followed by a fresh lease: the record is deleted
	// and re-created, which a version check must still tell apart)
	hook.afterGet = func() {
		for i := 0; i < window; i++ {
			vhLeaseOp(b, &hb)
		}
	}
	_ = base

	// node 1's call (lease / renew, or return), with node 2 interfering between its read and its write
	if verif.Bool() {
		d := vhLeaseDuration()
		t0 := time.Now()
		err := a.LeaseTable("t", d)
		if err == nil {
			ha = vhHolder{ok: true, until: t0.Add(d)}
			verif.Cover("granted")
			rec, ok := kv.VHGetRaw(lf, vhLeaseKey)
			verif.Assert(ok, "a granted lease is recorded")
			var l Lease
			verif.Assert(json.Unmarshal([]byte(rec.Value), &l) == nil && l.ID == 1, "the record names the grantee")
		}
	} else {
		if ok, err := a.ReturnTable("t"); err == nil && ok {
			ha.ok = false
			verif.Cover("returned")
		}
	}
	// a third node may act afterwards, then node 2 again
	c := vhManagerOn(rs, 3)
	var hc vhHolder
	if hasPre && pre.ID == 3 {
		hc = vhHolder{ok: true, until: pre.Until}
	}
	if tail != 0 {
		vhLeaseOp(c, &hc)
		vhLeaseOp(b, &hb)
	}

	now := time.Now()
	holdsA := ha.ok && now.Before(ha.until)
	holdsB := hb.ok && now.Before(hb.until)
	holdsC := hc.ok && now.Before(hc.until)
	verif.Assert(!(holdsA && holdsB) && !(holdsA && holdsC) && !(holdsB && holdsC), "at most one node holds an unexpired lease")
	// whoever holds an unexpired lease (and did not return it) still owns the record:
	// nobody else's lease or return call took or removed it
	rec, ok := kv.VHGetRaw(lf, vhLeaseKey)
	var l Lease
	if ok {
		verif.Assert(json.Unmarshal([]byte(rec.Value), &l) == nil, "lease record decodes")
	}
	if holdsA {
		verif.Assert(ok && l.ID == 1, "an unexpired lease is neither taken nor removed by another node (node 1)")
	}
	if holdsB {
		verif.Assert(ok && l.ID == 2, "an unexpired lease is neither taken nor removed by another node (node 2)")
	}
	if holdsC {
		verif.Assert(ok && l.ID == 3, "an unexpired lease is neither taken nor removed by another node (node 3)")
	}
	if holdsA || holdsB || holdsC {
		verif.Cover("held")
	}
	verif.Cover("end")
}

// VH_C15_return: returning a lease removes only the caller's own record.
func VH_C15_return() {
	rs, lf, _, base := kv.VHNewStore()
	owner := uint64(1 + verif.Concretize(verif.Int(), 0, 1))
	b, _ := json.Marshal(Lease{ID: owner, Until: verif.Instant()})
	ver := verif.Uint64()
	verif.Assume(ver >= 1 && ver < base)
	kv.VHPutRaw(lf, kv.Pair{Key: vhLeaseKey, Value: string(b), Ver: ver})
	m := vhManagerOn(rs, 1)
	ok, err := m.ReturnTable("t")
	verif.Assert(err == nil, "return succeeds")
	_, still := kv.VHGetRaw(lf, vhLeaseKey)
	if owner == 1 {
		verif.Assert(ok && !still, "own lease returned and removed")
	} else {
		verif.Assert(!ok && still, "another node's lease is left alone")
		verif.Cover("foreign")
	}
	verif.Cover("end")
}

func VH_C15_vacuity() {
	rs, _, _, _ := kv.VHNewStore()
	m := vhManagerOn(rs, 1)
	verif.Assume(m.LeaseTable("t", time.Second) == nil)
	verif.Assume(vhManagerOn(rs, 2).LeaseTable("t", time.Second) != nil)
	verif.Assert(false, "vacuity")
}
