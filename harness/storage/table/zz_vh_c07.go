//go:build verif

package table

import (
	"bytes"
	"io"

	"github.com/jamf/regatta/internal/verif"
	"github.com/jamf/regatta/regattapb"
	"github.com/jamf/regatta/storage/kv"
	"github.com/jamf/regatta/storage/table/fsm"
)

// vhRecordReader delivers one record per Read call (what snapshotFile.Read
// does over the framed file; that framing is C18's obligation).
type vhRecordReader struct {
	recs [][]byte
}

func (r *vhRecordReader) Read(p []byte) (int, error) {
	if len(r.recs) == 0 {
		return 0, io.EOF
	}
	if len(p) < len(r.recs[0]) {
		// the real readers cannot deliver a record into a smaller buffer either
		// (snapshot.Reader: io.ErrShortBuffer; snapshotFile.Read: slice out of range)
		return 0, io.ErrShortBuffer
	}
	n := copy(p, r.recs[0])
	r.recs = r.recs[1:]
	return n, nil
}

// VH_C07_restore: a table stream of k records (PUT commands with arbitrary
// keys and values, then the final no-op command carrying the index the
// stream declares) is loaded with the real Manager.readIntoTable into an
// empty table for an arbitrary in-memory-log-size setting (incl. 0 =
// unlimited): the table then holds exactly the captured pairs, nothing else,
// and its recorded leader index is the declared index.
func VH_C07_restore(k, bigKiB int) {
	nh := verif.NewNodeHost()
	rs, _, _ := kv.VHNewStoreOn(nh, 1000)
	f := fsm.VHNewFSM(nil)
	verif.StartShard(nh, 10001, 1, f)
	m := VHManager(rs, nh, 1)
	m.cfg.Table.MaxInMemLogSize = verif.Uint64()

	var keys, vals [][]byte
	var recs [][]byte
	for i := 0; i < k; i++ {
		key, val := verif.Bytes(1), verif.Bytes(1)
		if i == 0 && bigKiB > 0 {
			// a value of the maximum accepted size (table.MaxValueLen): the record is a little larger
			val = make([]byte, bigKiB<<10)
			val[0] = verif.Byte()
		}
		if i > 0 {
			verif.Assume(bytes.Compare(keys[i-1], key) < 0) // a snapshot stream is in key order
		}
		b, err := (&regattapb.Command{Table: []byte("t"), Type: regattapb.Command_PUT, Kv: &regattapb.KeyValue{Key: key, Value: val}}).MarshalVT()
		if err != nil {
			panic(err)
		}
		keys, vals, recs = append(keys, key), append(vals, val), append(recs, b)
	}
	declared := 1 + uint64(verif.Byte()&0x3f)
	fin, err := (&regattapb.Command{Table: []byte("t"), Type: regattapb.Command_DUMMY, LeaderIndex: &declared}).MarshalVT()
	if err != nil {
		panic(err)
	}
	recs = append(recs, fin)

	err = m.readIntoTable(10001, &vhRecordReader{recs: recs})
	verif.Assert(err == nil, "restore succeeds")
	count, _, leader := fsm.VHSummary(f)
	verif.Assert(leader == declared, "the recorded leader index equals the index the stream declares")
	verif.Assert(!fsm.VHHasKey(f, []byte{}), "no pair is added (no record with an empty key)")
	verif.Assert(count == int64(k), "no pair is lost or added")
	for i := range keys {
		verif.Assert(fsm.VHValueIs(f, keys[i], vals[i]), "every captured pair is restored unaltered")
	}
	if uint64(len(recs[0])) >= m.cfg.Table.MaxInMemLogSize/2 {
		verif.Cover("threshold-on-first-record")
	}
	verif.Cover("end")
}

func VH_C07_vacuity() {
	nh := verif.NewNodeHost()
	rs, _, _ := kv.VHNewStoreOn(nh, 1000)
	f := fsm.VHNewFSM(nil)
	verif.StartShard(nh, 10001, 1, f)
	m := VHManager(rs, nh, 1)
	m.cfg.Table.MaxInMemLogSize = 1 << 30
	li := uint64(9)
	fin, _ := (&regattapb.Command{Table: []byte("t"), Type: regattapb.Command_DUMMY, LeaderIndex: &li}).MarshalVT()
	verif.Assume(m.readIntoTable(10001, &vhRecordReader{recs: [][]byte{fin}}) == nil)
	_, _, leader := fsm.VHSummary(f)
	verif.Assume(leader == 9)
	verif.Assert(false, "vacuity")
}
