//go:build verif

package storage

import (
	"github.com/jamf/regatta/storage/cluster"
	"github.com/jamf/regatta/storage/table"
	"github.com/lni/dragonboat/v4"
	"go.uber.org/zap"
)

// VHEngine: an Engine over an existing NodeHost and Manager (no gossip, no event loop).
func VHEngine(nh *dragonboat.NodeHost, m *table.Manager, node uint64) *Engine {
	return &Engine{NodeHost: nh, Manager: m, cfg: Config{NodeID: node}, log: zap.NewNop().Sugar(), stop: make(chan struct{}), Cluster: cluster.VHCluster()}
}
