//go:build verif

package kv

import (
	"bytes"
	"encoding/json"
	"errors"
	"strings"

	"github.com/jamf/regatta/internal/verif"
	"github.com/lni/dragonboat/v4"
)

// vhStore: the real RaftStore over a NodeHost (engine: model M2 — proposals
// are applied by the real LFSM.Update at consecutive log indices starting at
// an arbitrary base; native: a real single-node NodeHost).
func vhStore() (*RaftStore, *LFSM, *dragonboat.NodeHost, uint64) {
	nh := verif.NewNodeHost()
	rs, lf, base := vhStoreOn(nh, 1)
	return rs, lf, nh, base
}

func vhStoreOn(nh *dragonboat.NodeHost, shard uint64) (*RaftStore, *LFSM, uint64) {
	lf := NewLFSM()(shard, 1).(*LFSM)
	base := verif.Uint64()
	verif.Assume(base >= 1 && base < 1<<62)
	verif.StartShard(nh, shard, base, lf)
	return &RaftStore{NodeHost: nh, ClusterID: shard}, lf, base
}

// VHNewStoreOn: the metadata store as shard `shard` of an existing NodeHost.
func VHNewStoreOn(nh *dragonboat.NodeHost, shard uint64) (*RaftStore, *LFSM, uint64) {
	return vhStoreOn(nh, shard)
}

// vhArbMap puts 0..n arbitrary pairs with distinct 1-byte keys and versions
// handed out before `base` directly into the state machine's map.
func vhArbMap(lf *LFSM, n int, base uint64) []Pair {
	var ps []Pair
	cnt := verif.Concretize(verif.Int(), 0, n)
	for i := 0; i < cnt; i++ {
		p := Pair{Key: verif.String(1), Value: verif.String(1), Ver: verif.Uint64()}
		verif.Assume(p.Ver < base)
		for _, q := range ps {
			verif.Assume(q.Key != p.Key)
		}
		lf.store.m[p.Key] = p
		ps = append(ps, p)
	}
	return ps
}

func vhFind(ps []Pair, key string) (int, bool) {
	for i := range ps {
		if ps[i].Key == key {
			return i, true
		}
	}
	return -1, false
}

// VH_C13_update: one set / delete / unknown-op update with arbitrary key,
// value and version against an arbitrary store: compare-and-set rule, the
// reported pair, the new version, and what get/exists report afterwards.
func VH_C13_update(n int) {
	rs, lf, nh, base := vhStore()
	ps := vhArbMap(lf, n, base)
	key, val, ver := verif.String(1), verif.String(1), verif.Uint64()
	i, exists := vhFind(ps, key)
	op := verif.Choice(3)
	switch op {
	case 0:
		got, err := rs.Set(key, val, ver)
		if exists && ps[i].Ver != ver {
			verif.Assert(errors.Is(err, ErrVersionMismatch), "set with a stale/future version fails with version mismatch")
			verif.Assert(got == ps[i], "version mismatch reports the current pair")
			verif.Cover("set-mismatch")
		} else {
			verif.Assert(err == nil, "set succeeds on a missing key or with the current version")
			verif.Assert(got.Key == key && got.Value == val, "set reports the stored pair")
			verif.Assert(got.Ver >= base, "new version is larger than every version handed out before")
			for _, q := range ps {
				verif.Assert(got.Ver > q.Ver, "new version exceeds all existing versions")
			}
			if exists {
				ps[i] = got
			} else {
				ps = append(ps, got)
			}
			verif.Cover("set-ok")
		}
	case 1:
		err := rs.Delete(key, ver)
		if exists && ps[i].Ver != ver {
			verif.Assert(errors.Is(err, ErrVersionMismatch), "delete with a stale/future version fails with version mismatch")
			verif.Cover("delete-mismatch")
		} else {
			verif.Assert(err == nil, "delete succeeds on a missing key or with the current version")
			if exists {
				ps = append(ps[:i:i], ps[i+1:]...)
				verif.Cover("delete-ok")
			}
		}
	default:
		b, _ := json.Marshal(Update{Op: "noop", KVPair: Pair{Key: key, Value: val, Ver: ver}})
		_, err := nh.SyncPropose(verif.NewContext(true), nh.GetNoOPSession(1), b)
		verif.Assert(err == nil, "unknown operation is applied without error")
	}
	// lookups reflect exactly the successful updates
	probe := verif.String(1)
	j, want := vhFind(ps, probe)
	ok, err := rs.Exists(probe)
	verif.Assert(err == nil && ok == want, "exists reflects the updates")
	got, err := rs.Get(probe)
	if want {
		verif.Assert(err == nil && got == ps[j], "get returns the stored pair")
	} else {
		verif.Assert(errors.Is(err, ErrNotExist), "get of a missing key reports not-exist")
	}
	verif.Cover("end")
}

// VH_C13_versions: versions handed out by consecutive successful sets strictly increase.
func VH_C13_versions() {
	rs, _, _, base := vhStore()
	k1, k2 := verif.String(1), verif.String(1)
	a, err := rs.Set(k1, "x", verif.Uint64())
	verif.Assert(err == nil && a.Ver >= base, "first set on an empty store succeeds")
	b, err := rs.Set(k2, "y", a.Ver)
	if k1 == k2 {
		verif.Assert(err == nil && b.Ver > a.Ver, "re-set with the version just handed out succeeds with a larger version")
		c, err := rs.Set(k2, "z", a.Ver)
		verif.Assert(errors.Is(err, ErrVersionMismatch) && c == b, "the old version is now stale")
		verif.Cover("same-key")
	} else {
		verif.Assert(err == nil && b.Ver > a.Ver, "set of another key gets a larger version")
	}
	verif.Cover("end")
}

func vhKeyTemplate(s string) string {
	switch verif.Choice(4) {
	case 0:
		return "/tables/" + s
	case 1:
		return "/tables/" + s + "/lease"
	case 2:
		return "/cleanup/1/" + s
	}
	return "queue/t/" + s
}

// VH_C13_glob: GetAll with the patterns the callers use returns exactly the
// pairs whose key is pattern-prefix + one path element, sorted by key.
func VH_C13_glob(n int) {
	rs, lf, _, _ := vhStore()
	var ps []Pair
	for i := 0; i < n; i++ {
		p := Pair{Key: vhKeyTemplate(verif.String(1)), Value: verif.String(1), Ver: 1}
		for _, q := range ps {
			verif.Assume(q.Key != p.Key)
		}
		lf.store.m[p.Key] = p
		ps = append(ps, p)
	}
	prefix := []string{"/tables/", "/cleanup/1/", "queue/t/"}[verif.Choice(3)]
	got, err := rs.GetAll(prefix + "*")
	verif.Assert(err == nil, "glob succeeds")
	var want []Pair
	for _, p := range ps {
		if strings.HasPrefix(p.Key, prefix) && !strings.Contains(p.Key[len(prefix):], "/") {
			want = append(want, p)
		}
	}
	verif.Assert(len(got) == len(want), "glob returns exactly the matching keys")
	for i := range got {
		if i > 0 {
			verif.Assert(got[i-1].Key < got[i].Key, "glob result sorted by key")
		}
		_, found := vhFind(want, got[i].Key)
		verif.Assert(found, "glob returns only matching keys")
	}
	verif.Cover("end")
}

type vhCapture struct{ chunks [][]byte }

func (c *vhCapture) Write(p []byte) (int, error) {
	c.chunks = append(c.chunks, p)
	return len(p), nil
}

// VH_C13_snapshot: the store a replica has after installing a snapshot equals
// the store the source had when the snapshot was prepared: same keys, values
// and versions, nothing that was only in the receiver's previous store
// survives, nothing written on the source after prepare shows up.
func VH_C13_snapshot(n int) {
	_, src, nh, base := vhStore()
	ps := vhArbMap(src, n, base)
	ctx, err := src.PrepareSnapshot()
	verif.Assert(err == nil, "prepare succeeds")
	if verif.Bool() {
		// the source moves on while the snapshot is streamed
		rs := &RaftStore{NodeHost: nh, ClusterID: 1}
		_, _ = rs.Set(verif.String(1), verif.String(1), 0)
		if len(ps) > 0 {
			_ = rs.Delete(ps[0].Key, ps[0].Ver)
		}
		verif.Cover("raced")
	}
	w := &vhCapture{}
	verif.Assert(src.SaveSnapshot(ctx, w, nil, nil) == nil, "save succeeds")
	verif.Assert(len(w.chunks) == 1, "harness: the snapshot is written in one piece")
	if len(w.chunks) != 1 {
		return
	}

	dst := NewLFSM()(1, 2).(*LFSM)
	old := vhArbMap(dst, 2, base)
	err = dst.RecoverFromSnapshot(bytes.NewReader(w.chunks[0]), nil, nil)
	verif.Assert(err == nil, "recover succeeds")
	if err != nil {
		return
	}
	verif.Assert(len(dst.store.m) == len(ps), "the installed store has exactly the snapshot's keys")
	for _, p := range ps {
		got, ok := dst.store.m[p.Key]
		verif.Assert(ok && got == p, "every pair of the snapshot is installed with its value and version")
	}
	for _, o := range old {
		if _, in := vhFind(ps, o.Key); !in {
			_, ok := dst.store.m[o.Key]
			verif.Assert(!ok, "a key that was only in the receiver's previous store does not survive the install")
			verif.Cover("stale-key")
		}
	}
	verif.Cover("end")
}

func VH_C13_vacuity() {
	rs, _, _, base := vhStore()
	a, err := rs.Set("k", "v", 7)
	verif.Assume(err == nil && a.Ver == base)
	verif.Assert(false, "vacuity")
}

// Exported helpers for harnesses of other packages that need the metadata store.

// VHNewStore: see vhStore.
func VHNewStore() (*RaftStore, *LFSM, *dragonboat.NodeHost, uint64) { return vhStore() }

// VHPutRaw places a pair directly into the state machine's map (arbitrary pre-state).
func VHPutRaw(lf *LFSM, p Pair) { lf.store.m[p.Key] = p }

// VHGetRaw reads the state machine's map directly.
func VHGetRaw(lf *LFSM, key string) (Pair, bool) { p, ok := lf.store.m[key]; return p, ok }

// VHKeys lists the keys present in the state machine's map.
func VHKeys(lf *LFSM) []string {
	var ks []string
	for k := range lf.store.m {
		ks = append(ks, k)
	}
	return ks
}
