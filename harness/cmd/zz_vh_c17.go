//go:build verif

package cmd

import (
	"context"

	"github.com/grpc-ecosystem/go-grpc-middleware/v2/interceptors/auth"
	"github.com/jamf/regatta/internal/verif"
	"github.com/jamf/regatta/regattaserver"
	"google.golang.org/grpc"
	"google.golang.org/grpc/codes"
	"google.golang.org/grpc/status"
)

type vhStream struct {
	grpc.ServerStream
	ctx context.Context
}

func (s *vhStream) Context() context.Context { return s.ctx }

// vhCall pushes one call for service implementation impl through the real
// interceptors the API server installs (auth.UnaryServerInterceptor /
// auth.StreamServerInterceptor with defaultAuthFunc); reports whether the
// handler was reached and the error returned.
func vhCall(impl any, ctx context.Context, stream bool) (reached bool, err error) {
	if !stream {
		ic := auth.UnaryServerInterceptor(defaultAuthFunc)
		_, err = ic(ctx, nil, &grpc.UnaryServerInfo{Server: impl, FullMethod: "/svc/Method"}, func(ctx context.Context, req any) (any, error) {
			reached = true
			return nil, nil
		})
		return
	}
	ic := auth.StreamServerInterceptor(defaultAuthFunc)
	err = ic(impl, &vhStream{ctx: ctx}, &grpc.StreamServerInfo{FullMethod: "/svc/Stream"}, func(srv any, s grpc.ServerStream) error {
		reached = true
		return nil
	})
	return
}

// vhArbToken: the configured token (n bytes, arbitrary) and the presented one:
// absent, or arbitrary of m bytes (m < n: prefix-like, m == n, m > n: suffix-like).
func vhArbTokens(n int) (configured string, presented string, present bool) {
	configured = verif.String(n)
	present = verif.Bool()
	if present {
		presented = verif.String(verif.Concretize(verif.Int(), 0, n+1))
	}
	return
}

func vhCheckProtected(impl any, what string, T, t string, present bool) {
	for _, stream := range []bool{false, true} {
		reached, err := vhCall(impl, verif.CtxWithBearer(t, present), stream)
		if present && t == T {
			verif.Assert(reached && err == nil, what+": the right token is accepted")
			verif.Cover("accepted")
		} else {
			verif.Assert(!reached, what+": a call without the right token has no effect")
			verif.Assert(status.Code(err) == codes.Unauthenticated, what+": a call without the right token fails with Unauthenticated")
			verif.Cover("rejected")
		}
	}
}

// VH_C17_token: every protected service type, built the way leader() and
// follower() build it, behind the real interceptors.
func VH_C17_token(n int) {
	T, t, present := vhArbTokens(n)
	switch verif.Choice(4) {
	case 0:
		vhCheckProtected(&regattaserver.BackupServer{AuthFunc: authFunc(T)}, "maintenance (leader)", T, t, present)
	case 1:
		vhCheckProtected(&regattaserver.ResetServer{AuthFunc: authFunc(T)}, "maintenance (follower)", T, t, present)
	case 2:
		vhCheckProtected(&regattaserver.TablesServer{AuthFunc: authFunc(T)}, "tables (leader)", T, t, present)
	default:
		vhCheckProtected(&regattaserver.ReadonlyTablesServer{TablesServer: regattaserver.TablesServer{AuthFunc: authFunc(T)}}, "tables (follower)", T, t, present)
	}
	// services without a token requirement are unaffected
	reached, err := vhCall(&regattaserver.KVServer{}, verif.CtxWithBearer(t, present), verif.Bool())
	verif.Assert(reached && err == nil, "the KV service needs no token")
	reached, err = vhCall(&regattaserver.ClusterServer{}, verif.CtxWithBearer(t, present), false)
	verif.Assert(reached && err == nil, "the Cluster service needs no token")
	verif.Cover("end")
}

// VH_C17_header: the whole authorization header value is arbitrary (ASCII,
// up to 7+n+1 bytes). The oracle is the documented contract, written without
// the library: accepted iff the header is <scheme> SP <token> with the scheme
// matching "bearer" case-insensitively and the token byte-for-byte equal to
// the configured one.
func VH_C17_header(n int) {
	T := verif.String(n)
	present := verif.Bool()
	h := ""
	if present {
		h = verif.String(verif.Concretize(verif.Int(), 0, 7+n+1))
	}
	for i := 0; i < len(h); i++ {
		verif.Assume(h[i] < 0x80)
	}
	for i := 0; i < len(T); i++ {
		verif.Assume(T[i] < 0x80)
	}
	want := false
	if present && len(h) == 7+len(T) {
		// branch-free: bit 5 is the only difference between the two cases of an ASCII letter
		diff := byte(0)
		for i := 0; i < 6; i++ {
			diff |= (h[i] | 0x20) ^ "bearer"[i]
		}
		diff |= h[6] ^ ' '
		want = diff == 0 && h[7:] == T
	}
	var impl any
	if verif.Bool() {
		impl = &regattaserver.BackupServer{AuthFunc: authFunc(T)}
	} else {
		impl = &regattaserver.TablesServer{AuthFunc: authFunc(T)}
	}
	reached, err := vhCall(impl, verif.CtxWithAuthHeader(h, present), verif.Bool())
	if want {
		verif.Assert(reached && err == nil, "a well-formed bearer header with the right token is accepted")
		verif.Cover("accepted")
	} else {
		verif.Assert(!reached, "any other header: the call has no effect")
		verif.Assert(status.Code(err) == codes.Unauthenticated, "any other header: Unauthenticated")
		verif.Cover("rejected")
	}
	verif.Cover("end")
}

// VH_C17_notoken: with no token configured everything passes (documented default).
func VH_C17_notoken() {
	_, t, present := vhArbTokens(2)
	reached, err := vhCall(&regattaserver.BackupServer{AuthFunc: authFunc("")}, verif.CtxWithBearer(t, present), verif.Bool())
	verif.Assert(reached && err == nil, "no token configured: maintenance open")
	verif.Cover("end")
}

type vhRegistrar struct {
	names []string
	impls []any
}

func (r *vhRegistrar) RegisterService(desc *grpc.ServiceDesc, impl any) {
	r.names = append(r.names, desc.ServiceName)
	r.impls = append(r.impls, impl)
}

// VH_C17_wiring: the registration closure of leader() / follower() itself is
// executed (engine only) with tokens configured; every service it registers
// under the Maintenance and Tables names must reject a wrong or missing token
// through the real interceptors, for both call kinds.
func VH_C17_wiring(follower int) {
	name := "leader"
	if follower != 0 {
		name = "follower"
	}
	reg := verif.RegistrationClosure(name, 0)
	if reg == nil {
		return // native build: the closure is not reachable from outside leader()/follower()
	}
	mt, tt := verif.String(2), verif.String(2)
	verif.SetConfig("tables.enabled", "true")
	verif.SetConfig("maintenance.enabled", "true")
	verif.SetConfig("tables.token", tt)
	verif.SetConfig("maintenance.token", mt)
	r := &vhRegistrar{}
	reg(r)
	verif.Assert(len(r.names) >= 4, "API server registers KV, Cluster, Tables and Maintenance")
	seenM, seenT := false, false
	t := verif.String(2)
	present := verif.Bool()
	for i, n := range r.names {
		switch n {
		case "maintenance.v1.Maintenance":
			seenM = true
			vhCheckProtected(r.impls[i], "registered maintenance service", mt, t, present)
		case "regatta.v1.Tables":
			seenT = true
			vhCheckProtected(r.impls[i], "registered tables service", tt, t, present)
		}
	}
	verif.Assert(seenM && seenT, "both protected services are registered when enabled")
	verif.Cover("end")
}

func VH_C17_vacuity() {
	T, t, present := vhArbTokens(2)
	reached, _ := vhCall(&regattaserver.BackupServer{AuthFunc: authFunc(T)}, verif.CtxWithBearer(t, present), false)
	verif.Assume(reached)
	verif.Assert(false, "vacuity")
}
