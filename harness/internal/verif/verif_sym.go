//go:build verif && symgo

// Package verif is the harness API of the symgo engine. In this build (tag
// symgo) the bodies are placeholders: the engine intercepts every call by name.
package verif

import (
	"context"
	"time"

	"github.com/lni/dragonboat/v4"
	"google.golang.org/grpc"
)

func Symbolic() bool                   { return true }
func Bool() bool                       { return false }
func Byte() byte                       { return 0 }
func Uint16() uint16                   { return 0 }
func Uint32() uint32                   { return 0 }
func Int32() int32                     { return 0 }
func Uint64() uint64                   { return 0 }
func Int64() int64                     { return 0 }
func Int() int                         { return 0 }
func IntRange(lo, hi int64) int64      { return lo }
func Bytes(n int) []byte               { return make([]byte, n) }
func String(n int) string              { return "" }
func Concretize(x int, lo, hi int) int { return x }
func Choice(n int) int                 { return 0 }
func Assume(c bool)                    {}
func Assert(c bool, label string)      {}
func Cover(tag string)                 {}
func Note(s string)                    {}
func Yield()                           {}
func Preempt(on bool)                  {}
func PermuteMaps(on bool)              {}
func Panics(f func()) bool             { return false }
func SameFunc(a, b interface{}) bool   { return false }

// NewContext returns a cancellable context (with a deadline if withDeadline)
// that the harness controls with Cancel / Expire.
func NewContext(withDeadline bool) context.Context { return nil }
func Cancel(ctx context.Context)                   {}
func Expire(ctx context.Context)                   {}

// NewNodeHost returns a NodeHost (engine: model M2; native: a real
// single-node in-memory NodeHost). StartShard runs the given state machine
// (IConcurrentStateMachine or IOnDiskStateMachine) as shard id; firstIndex is
// the log index its first proposal gets in the engine (natively the real log decides).
func NewNodeHost() *dragonboat.NodeHost                                                { return nil }
func StartShard(nh *dragonboat.NodeHost, id uint64, firstIndex uint64, sm interface{}) {}
func YieldAtStore(nh *dragonboat.NodeHost, on bool)                                    {}

// Instant returns an arbitrary instant (not tied to the clock).
func Instant() time.Time { return time.Time{} }

// Tick lets every ticker fire once. NoDeadlock(label): from now on a state in
// which every goroutine is blocked violates `label`.
func Tick()                   {}
func NoDeadlock(label string) {}

// CtxWithBearer: an incoming-request context carrying (or not) a bearer token.
func CtxWithBearer(token string, present bool) context.Context { return nil }

// CtxWithAuthHeader: an incoming-request context whose "authorization" metadata value is header (or absent).
func CtxWithAuthHeader(header string, present bool) context.Context { return nil }

// SetConfig sets a configuration value (viper).
func SetConfig(key, value string) {}

// RegistrationClosure returns the idx-th func(grpc.ServiceRegistrar) literal
// of cmd.<fn> with opaque captured variables (engine only; nil natively).
func RegistrationClosure(fn string, idx int) func(grpc.ServiceRegistrar) { return nil }

// DeepEqual: structural equality (reflect.DeepEqual natively).
func DeepEqual(a, b interface{}) bool { return false }

// ShortReads: from now on the (modelled) decompressing reader may return
// fewer bytes than asked for, as the io.Reader contract allows (engine only).
func ShortReads(on bool) {}

// SSTCuts: whether sstable.Writer.EstimatedSize returns arbitrary (non-decreasing) values, so a size cut can fall anywhere.
func SSTCuts(on bool) {}

// RunShardIDs marks shards as running on the host (engine only). StartedShards / StoppedShards report the
// shard ids passed to StartOnDiskReplica / StopShard so far.
func RunShardIDs(nh *dragonboat.NodeHost, ids []uint64) {}
func StartedShards(nh *dragonboat.NodeHost) []uint64    { return nil }
func StoppedShards(nh *dragonboat.NodeHost) []uint64    { return nil }

// YieldAtDB: every operation on a Pebble database handle becomes a scheduling point (engine only).
func YieldAtDB(on bool) {}

// TempFile: a readable file with the given content; returns its name.
func TempFile(content string) string { return "" }

// LockModel: sync.Mutex / sync.RWMutex block and are scheduling points (engine only; see intrinsics.go).
func LockModel(on bool) {}

// Origin: for a value produced by a call the engine does not interpret, the name of that call ("" otherwise / natively).
func Origin(v any) string { return "" }

// BatchSizes / SpontaneousFlush: see model_pebble.go (engine only).
func BatchSizes(on bool)       {}
func SpontaneousFlush(on bool) {}
