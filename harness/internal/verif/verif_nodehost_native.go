//go:build verif && !symgo

package verif

import (
	"context"
	"fmt"
	"net"
	"time"

	"github.com/lni/dragonboat/v4"
	"github.com/lni/dragonboat/v4/config"
	dbsm "github.com/lni/dragonboat/v4/statemachine"
	"github.com/lni/vfs"
)

// NewNodeHost starts a real single-node NodeHost on an in-memory file system.
func NewNodeHost() *dragonboat.NodeHost {
	l, _ := net.Listen("tcp", "127.0.0.1:0")
	addr := fmt.Sprintf("127.0.0.1:%d", l.Addr().(*net.TCPAddr).Port)
	l.Close()
	nhc := config.NodeHostConfig{WALDir: "wal", NodeHostDir: "dragonboat", RTTMillisecond: 1, RaftAddress: addr}
	_ = nhc.Prepare()
	nhc.Expert.FS = vfs.NewMem()
	nhc.Expert.Engine.ExecShards = 1
	nhc.Expert.LogDB.Shards = 1
	nh, err := dragonboat.NewNodeHost(nhc)
	if err != nil {
		panic(err)
	}
	return nh
}

// StartShard runs sm as a one-replica shard and waits for its leader.
func StartShard(nh *dragonboat.NodeHost, id uint64, firstIndex uint64, sm interface{}) {
	cfg := config.Config{ReplicaID: 1, ShardID: id, ElectionRTT: 5, HeartbeatRTT: 1, CheckQuorum: true}
	members := map[uint64]dragonboat.Target{1: nh.RaftAddress()}
	var err error
	switch m := sm.(type) {
	case dbsm.IConcurrentStateMachine:
		err = nh.StartConcurrentReplica(members, false, func(uint64, uint64) dbsm.IConcurrentStateMachine {
			return &offsetCSM{IConcurrentStateMachine: m, first: firstIndex}
		}, cfg)
	case dbsm.IOnDiskStateMachine:
		// the harness hands over an already opened state machine
		err = nh.StartOnDiskReplica(members, false, func(uint64, uint64) dbsm.IOnDiskStateMachine {
			return &openedSM{IOnDiskStateMachine: m, first: firstIndex}
		}, cfg)
	default:
		panic(fmt.Sprintf("StartShard: unsupported state machine %T", sm))
	}
	if err != nil {
		panic(err)
	}
	deadline := time.Now().Add(30 * time.Second)
	for time.Now().Before(deadline) {
		if _, _, ok, _ := nh.GetLeaderID(id); ok {
			// make sure the shard accepts proposals
			ctx, cancel := context.WithTimeout(context.Background(), time.Second)
			_, err := nh.SyncGetShardMembership(ctx, id)
			cancel()
			if err == nil {
				return
			}
		}
		time.Sleep(5 * time.Millisecond)
	}
	panic("StartShard: no leader")
}

func YieldAtStore(nh *dragonboat.NodeHost, on bool) {}

// openedSM adapts a state machine the harness has already opened: dragonboat's
// Open call must not open it a second time.
//
// Both adapters also make the log indices the state machine sees start at the
// harness's (arbitrary) first index, as in model M2: the first proposal the
// real Raft log delivers is presented as index `first`, later ones follow
// consecutively.
type openedSM struct {
	dbsm.IOnDiskStateMachine
	first uint64
	delta uint64
	seen  bool
}

func (o *openedSM) Open(<-chan struct{}) (uint64, error) { return 0, nil }

func (o *openedSM) Update(es []dbsm.Entry) ([]dbsm.Entry, error) {
	if len(es) > 0 && !o.seen {
		o.seen, o.delta = true, o.first-es[0].Index
	}
	for i := range es {
		es[i].Index += o.delta
	}
	out, err := o.IOnDiskStateMachine.Update(es)
	for i := range out {
		out[i].Index -= o.delta
	}
	return out, err
}

type offsetCSM struct {
	dbsm.IConcurrentStateMachine
	first uint64
	delta uint64
	seen  bool
}

func (o *offsetCSM) Update(es []dbsm.Entry) ([]dbsm.Entry, error) {
	if len(es) > 0 && !o.seen {
		o.seen, o.delta = true, o.first-es[0].Index
	}
	for i := range es {
		es[i].Index += o.delta
	}
	out, err := o.IConcurrentStateMachine.Update(es)
	for i := range out {
		out[i].Index -= o.delta
	}
	return out, err
}

// RunShardIDs / StartedShards / StoppedShards have no native twin (engine-only harnesses).
func RunShardIDs(nh *dragonboat.NodeHost, ids []uint64) { panic("engine only") }
func StartedShards(nh *dragonboat.NodeHost) []uint64    { panic("engine only") }
func StoppedShards(nh *dragonboat.NodeHost) []uint64    { panic("engine only") }
