//go:build verif && !symgo

package verif

import (
	"context"

	"github.com/spf13/viper"
	"google.golang.org/grpc"
	"google.golang.org/grpc/metadata"
)

// CtxWithBearer: a real incoming context with real metadata.
func CtxWithBearer(token string, present bool) context.Context {
	if !present {
		return context.Background()
	}
	return metadata.NewIncomingContext(context.Background(), metadata.Pairs("authorization", "bearer "+token))
}

func CtxWithAuthHeader(header string, present bool) context.Context {
	if !present {
		return context.Background()
	}
	return metadata.NewIncomingContext(context.Background(), metadata.Pairs("authorization", header))
}

func SetConfig(key, value string) { viper.Set(key, value) }

// RegistrationClosure is only available inside the engine.
func RegistrationClosure(fn string, idx int) func(grpc.ServiceRegistrar) { return nil }
