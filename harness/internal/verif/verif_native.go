//go:build verif && !symgo

// Package verif, native build: nondeterministic values are read, in call
// order, from the counterexample file named by VERIF_REPLAY, so a harness
// compiled natively replays a solver model against the real code.
package verif

import (
	"context"
	"encoding/json"
	"fmt"
	"os"
	"reflect"
	"sort"
	"strings"
	"time"
)

type rec struct {
	Name string   `json:"name"`
	Kind string   `json:"kind"`
	Vals []uint64 `json:"vals"`
}

type Replay struct {
	Property  string  `json:"property"`
	Harness   string  `json:"harness"`
	Args      []int64 `json:"args"`
	Assertion string  `json:"assertion"`
	Values    []rec   `json:"values"`
}

var (
	cur        *Replay
	pos        int
	Violations []string
	Covers     []string
)

type AssumeFailed struct{ At int }
type Desync struct{ Msg string }

func Load(path string) (*Replay, error) {
	b, err := os.ReadFile(path)
	if err != nil {
		return nil, err
	}
	r := &Replay{}
	if err := json.Unmarshal(b, r); err != nil {
		return nil, err
	}
	cur, pos, Violations, Covers = r, 0, nil, nil
	lastModelNow = -1
	return r, nil
}

var lastModelNow int64 = -1

// modelNowNear returns the model clock reading nearest to the current
// position in the value list (the previous one, else the next one).
func modelNowNear() int64 {
	if lastModelNow >= 0 {
		return lastModelNow
	}
	for i := pos; cur != nil && i < len(cur.Values); i++ {
		if cur.Values[i].Kind == "Now" {
			return int64(cur.Values[i].Vals[0])
		}
	}
	return 0
}

func next(kind string) []uint64 {
	if cur == nil {
		panic(Desync{"no replay loaded"})
	}
	// clock readings of the model are consumed by the real clock natively
	for pos < len(cur.Values) && cur.Values[pos].Kind == "Now" && kind != "Now" {
		lastModelNow = int64(cur.Values[pos].Vals[0])
		pos++
	}
	if pos >= len(cur.Values) {
		panic(Desync{fmt.Sprintf("replay exhausted at call %d (%s)", pos, kind)})
	}
	r := cur.Values[pos]
	if r.Kind != kind {
		panic(Desync{fmt.Sprintf("replay desync at call %d: file has %s, harness asks %s", pos, r.Kind, kind)})
	}
	pos++
	return r.Vals
}

func one(kind string) uint64 {
	v := next(kind)
	if len(v) != 1 {
		panic(Desync{"bad value count for " + kind})
	}
	return v[0]
}

func Symbolic() bool { return false }
func Bool() bool     { return one("Bool") != 0 }
func Byte() byte     { return byte(one("Byte")) }
func Uint16() uint16 { return uint16(one("Uint16")) }
func Uint32() uint32 { return uint32(one("Uint32")) }
func Int32() int32   { return int32(one("Int32")) }
func Uint64() uint64 { return one("Uint64") }
func Int64() int64   { return int64(one("Int64")) }
func Int() int       { return int(one("Int")) }
func IntRange(lo, hi int64) int64 {
	v := int64(one("IntRange"))
	if v < lo || v > hi {
		panic(AssumeFailed{pos})
	}
	return v
}
func Bytes(n int) []byte {
	v := next("Bytes")
	if len(v) != n {
		panic(Desync{fmt.Sprintf("Bytes(%d) but file has %d", n, len(v))})
	}
	b := make([]byte, n)
	for i := range b {
		b[i] = byte(v[i])
	}
	return b
}
func String(n int) string {
	v := next("String")
	if len(v) != n {
		panic(Desync{fmt.Sprintf("String(%d) but file has %d", n, len(v))})
	}
	b := make([]byte, n)
	for i := range b {
		b[i] = byte(v[i])
	}
	return string(b)
}
func Concretize(x int, lo, hi int) int {
	if x < lo || x > hi {
		panic(AssumeFailed{pos})
	}
	return x
}
func Choice(n int) int { return int(one("Choice")) }
func Assume(c bool) {
	if !c {
		panic(AssumeFailed{pos})
	}
}
func Assert(c bool, label string) {
	if !c {
		Violations = append(Violations, label)
		fmt.Printf("VREPLAY-VIOLATION label=%q\n", label)
	}
}
func Cover(tag string)    { Covers = append(Covers, tag) }
func Note(s string)       { fmt.Println("VREPLAY-NOTE", s) }
func Yield()              {}
func Preempt(on bool)     {}
func PermuteMaps(on bool) {}
func Panics(f func()) (panicked bool) {
	defer func() {
		if r := recover(); r != nil {
			switch r.(type) {
			case AssumeFailed, Desync:
				panic(r)
			}
			fmt.Printf("VREPLAY-NOTE panic: %v\n", r)
			panicked = true
		}
	}()
	f()
	return false
}

// Run executes a harness entry under the loaded replay and reports.
func Run(f func()) (outcome string) {
	defer func() {
		if r := recover(); r != nil {
			switch x := r.(type) {
			case AssumeFailed:
				outcome = fmt.Sprintf("assume-failed at value %d", x.At)
			case Desync:
				outcome = "desync: " + x.Msg
			default:
				outcome = fmt.Sprintf("panic: %v", r)
			}
			fmt.Println("VREPLAY-END", outcome)
		}
	}()
	f()
	if len(Violations) > 0 {
		outcome = "violation"
	} else {
		outcome = "ok"
	}
	{
		seen := map[string]bool{}
		var tags []string
		for _, c := range Covers {
			if !seen[c] {
				seen[c] = true
				tags = append(tags, c)
			}
		}
		sort.Strings(tags)
		fmt.Println("VREPLAY-COVERS", strings.Join(tags, ","))
	}
	fmt.Println("VREPLAY-END", outcome)
	return outcome
}

// SameFunc reports whether two func values are the same function.
func SameFunc(a, b interface{}) bool {
	return reflect.ValueOf(a).Pointer() == reflect.ValueOf(b).Pointer()
}

type vctx struct {
	context.Context
	cancel context.CancelCauseFunc
}

// NewContext returns a cancellable context the harness controls with Cancel / Expire.
func NewContext(withDeadline bool) context.Context {
	parent := context.Background()
	if withDeadline {
		var c context.CancelFunc
		parent, c = context.WithTimeout(parent, 24*time.Hour)
		_ = c
	}
	ctx, cancel := context.WithCancelCause(parent)
	return &vctx{Context: ctx, cancel: cancel}
}
func Cancel(ctx context.Context) { ctx.(*vctx).cancel(context.Canceled) }
func Expire(ctx context.Context) { ctx.(*vctx).cancel(context.DeadlineExceeded) }
func (v *vctx) Err() error {
	if v.Context.Err() != nil {
		return context.Cause(v.Context)
	}
	return nil
}

// Instant: the model's instant, placed relative to the real clock the way it
// was placed relative to the model's nearest clock reading.
func Instant() time.Time {
	v := int64(one("Instant"))
	return time.Unix(time.Now().Unix()+(v-modelNowNear()), 0)
}

// Tick: natively tickers are real; wait a little longer than the queue's one second period.
func Tick() { time.Sleep(1100 * time.Millisecond) }

// NoDeadlock: natively a watchdog — if the harness has not finished after 30 s
// (every harness that uses it finishes in a few seconds) the label is violated.
func NoDeadlock(label string) {
	go func() {
		time.Sleep(30 * time.Second)
		fmt.Printf("VREPLAY-VIOLATION label=%q\n", label)
		fmt.Println("VREPLAY-END violation")
		os.Exit(1)
	}()
}

// DeepEqual: structural equality.
func DeepEqual(a, b interface{}) bool { return reflect.DeepEqual(a, b) }

// ShortReads has no native counterpart (the real reader decides itself).
func ShortReads(on bool) {}

// SSTCuts has no native counterpart (real tables reach the size threshold only with megabytes of data).
func SSTCuts(on bool) {}

// YieldAtDB has no native twin: the Go scheduler cannot be steered.
func YieldAtDB(on bool) {}

// TempFile writes content to a fresh temporary file and returns its name.
func TempFile(content string) string {
	f, err := os.CreateTemp("", "vh-*")
	if err != nil {
		panic(err)
	}
	defer f.Close()
	if _, err := f.WriteString(content); err != nil {
		panic(err)
	}
	return f.Name()
}

// LockModel has no native twin (real mutexes, real scheduler).
func LockModel(on bool) {}

// Origin has no native twin.
func Origin(v any) string { return "" }

// BatchSizes / SpontaneousFlush have no native twin.
func BatchSizes(on bool)       {}
func SpontaneousFlush(on bool) {}
