package main

import (
	"fmt"
	"go/token"
	"go/types"
	"unicode/utf8"

	"golang.org/x/tools/go/ssa"
)

// NativeObj is an engine-native model object standing for a value of a Go
// pointer type whose implementation is not interpreted (pebble.DB, …).
type NativeObj struct {
	Kind    string
	T       types.Type
	Methods map[string]*NativeFunc
	Data    interface{}
}

// Blob is a byte slice of symbolic length and opaque content.
type Blob struct {
	ID   int
	Len  *Term // 64-bit
	Cap  *Term
	Nil  bool
	Data interface{} // payload carried by models (e.g. a marshalled message)
}

func (p *Path) asTerm(v Value, what string) *Term {
	switch x := v.(type) {
	case *Term:
		return x
	case Poison:
		panic(unsupported{"use of poisoned value: " + x.Why})
	}
	panic(engineError{fmt.Sprintf("%s: expected scalar, got %T", what, v)})
}

func (p *Path) unop(fr *frame, instr *ssa.UnOp, x Value) Value {
	switch instr.Op {
	case token.MUL:
		return p.load(instr.Type(), x)
	case token.NOT:
		return p.ctx.Not(p.asTerm(x, "!"))
	case token.SUB:
		if f, ok := x.(float64); ok {
			return -f
		}
		return p.ctx.Neg(p.asTerm(x, "-"))
	case token.XOR:
		return p.ctx.Bnot(p.asTerm(x, "^"))
	case token.ARROW:
		v, ok := p.chanRecv(x, instr.X.Type().Underlying().(*types.Chan).Elem())
		if instr.CommaOk {
			return Tuple{v, p.ctx.Bool(ok)}
		}
		return v
	}
	panic(unsupported{"unop " + instr.Op.String()})
}

func (p *Path) binop(op token.Token, xt, yt types.Type, x, y Value) Value {
	c := p.ctx
	switch op {
	case token.EQL:
		return p.equalVals(xt, x, y)
	case token.NEQ:
		return c.Not(p.equalVals(xt, x, y))
	}
	if po, ok := x.(Poison); ok {
		panic(unsupported{"use of poisoned value: " + po.Why})
	}
	if po, ok := y.(Poison); ok {
		panic(unsupported{"use of poisoned value: " + po.Why})
	}
	// strings
	if isString(xt) {
		switch op {
		case token.ADD:
			xs, xok := x.(string)
			ys, yok := y.(string)
			if xok && yok {
				return xs + ys
			}
			return normStr(append(append(SymStr{}, p.toSymStr(x)...), p.toSymStr(y)...))
		case token.LSS, token.LEQ, token.GTR, token.GEQ:
			xs, xok := x.(string)
			ys, yok := y.(string)
			if xok && yok {
				switch op {
				case token.LSS:
					return c.Bool(xs < ys)
				case token.LEQ:
					return c.Bool(xs <= ys)
				case token.GTR:
					return c.Bool(xs > ys)
				default:
					return c.Bool(xs >= ys)
				}
			}
			a, b := []*Term(p.toSymStr(x)), []*Term(p.toSymStr(y))
			switch op {
			case token.LSS:
				return p.bytesLess(a, b)
			case token.LEQ:
				return c.Not(p.bytesLess(b, a))
			case token.GTR:
				return p.bytesLess(b, a)
			default:
				return c.Not(p.bytesLess(a, b))
			}
		}
		panic(unsupported{"string binop " + op.String()})
	}
	if xf, ok := x.(float64); ok {
		yf := y.(float64)
		switch op {
		case token.ADD:
			return xf + yf
		case token.SUB:
			return xf - yf
		case token.MUL:
			return xf * yf
		case token.QUO:
			return xf / yf
		case token.LSS:
			return c.Bool(xf < yf)
		case token.LEQ:
			return c.Bool(xf <= yf)
		case token.GTR:
			return c.Bool(xf > yf)
		case token.GEQ:
			return c.Bool(xf >= yf)
		}
		panic(unsupported{"float binop " + op.String()})
	}
	a := p.asTerm(x, op.String())
	b := p.asTerm(y, op.String())
	if a.W == 0 {
		switch op {
		case token.AND, token.LAND:
			return c.And(a, b)
		case token.OR, token.LOR:
			return c.Or(a, b)
		case token.XOR:
			return c.Not(c.Eq(a, b))
		}
		panic(unsupported{"bool binop " + op.String()})
	}
	uns := isUnsigned(xt)
	switch op {
	case token.ADD:
		return c.Bin(OAdd, a, b)
	case token.SUB:
		return c.Bin(OSub, a, b)
	case token.MUL:
		return c.Bin(OMul, a, b)
	case token.QUO, token.REM:
		if !b.IsConst() || b.K == 0 {
			if p.branch(c.Eq(b, c.BV(0, b.W))) {
				p.goPanicRuntime("integer divide by zero")
			}
		}
		switch {
		case op == token.QUO && uns:
			return c.Bin(OUdiv, a, b)
		case op == token.QUO:
			return c.Bin(OSdiv, a, b)
		case uns:
			return c.Bin(OUrem, a, b)
		default:
			return c.Bin(OSrem, a, b)
		}
	case token.AND:
		return c.Bin(OBand, a, b)
	case token.OR:
		return c.Bin(OBor, a, b)
	case token.XOR:
		return c.Bin(OBxor, a, b)
	case token.AND_NOT:
		return c.Bin(OBand, a, c.Bnot(b))
	case token.SHL, token.SHR:
		// shift count: any integer type; negative signed counts panic
		if !isUnsigned(yt) {
			if !b.IsConst() || sext64(b.K, b.W) < 0 {
				if p.branch(c.Slt(b, c.BV(0, b.W))) {
					p.goPanicRuntime("negative shift amount")
				}
			}
		}
		cnt := b
		if cnt.W > a.W {
			big := c.Uge(cnt, c.BV(uint64(a.W), cnt.W))
			cnt = c.Ite(big, c.BV(uint64(a.W), a.W), c.Extract(cnt, 0, a.W))
		} else if cnt.W < a.W {
			cnt = c.Zext(cnt, a.W)
		}
		switch {
		case op == token.SHL:
			return c.Bin(OShl, a, cnt)
		case uns:
			return c.Bin(OLshr, a, cnt)
		default:
			return c.Bin(OAshr, a, cnt)
		}
	case token.LSS:
		if uns {
			return c.Ult(a, b)
		}
		return c.Slt(a, b)
	case token.LEQ:
		if uns {
			return c.Ule(a, b)
		}
		return c.Sle(a, b)
	case token.GTR:
		if uns {
			return c.Ugt(a, b)
		}
		return c.Sgt(a, b)
	case token.GEQ:
		if uns {
			return c.Uge(a, b)
		}
		return c.Sge(a, b)
	}
	panic(unsupported{"binop " + op.String()})
}

func (p *Path) conv(dst, src types.Type, x Value) Value {
	if po, ok := x.(Poison); ok {
		panic(unsupported{"use of poisoned value: " + po.Why})
	}
	ud, us := dst.Underlying(), src.Underlying()
	// pointer / unsafe.Pointer conversions: value passes through
	if _, ok := ud.(*types.Pointer); ok {
		return x
	}
	if b, ok := ud.(*types.Basic); ok && b.Kind() == types.UnsafePointer {
		return x
	}
	switch ud := ud.(type) {
	case *types.Slice:
		// string -> []byte / []rune
		if bl, ok := x.(*Blob); ok {
			return bl // opaque strings built from blobs convert back to the blob
		}
		if isString(src) {
			eb, _ := ud.Elem().Underlying().(*types.Basic)
			if eb != nil && eb.Kind() == types.Uint8 {
				return p.termsToSlice(p.toSymStr(x))
			}
			if s, ok := x.(string); ok {
				var r []Value
				for _, ru := range s {
					r = append(r, p.ctx.BV(uint64(ru), 32))
				}
				if r == nil {
					r = []Value{}
				}
				return r
			}
			panic(unsupported{"[]rune(symbolic string)"})
		}
		return x
	case *types.Basic:
		switch {
		case ud.Info()&types.IsString != 0:
			switch us := us.(type) {
			case *types.Slice:
				if bl, ok := x.(*Blob); ok {
					return bl // opaque: strings built from blobs stay blobs
				}
				eb := us.Elem().Underlying().(*types.Basic)
				if eb.Kind() == types.Uint8 {
					return normStr(SymStr(p.sliceTerms(x)))
				}
				// []rune -> string
				var rs []rune
				for _, e := range x.([]Value) {
					rs = append(rs, rune(p.concreteInt(e, "[]rune->string")))
				}
				return string(rs)
			case *types.Basic:
				if us.Info()&types.IsString != 0 {
					return x
				}
				if us.Info()&types.IsInteger != 0 {
					r := rune(p.concreteInt(x, "string(rune)"))
					if !utf8.ValidRune(r) {
						r = utf8.RuneError
					}
					return string(r)
				}
			}
		case ud.Info()&types.IsInteger != 0:
			if f, ok := x.(float64); ok {
				if ud.Info()&types.IsUnsigned != 0 {
					return p.ctx.BV(uint64(f), intWidth(ud))
				}
				return p.ctx.BV(uint64(int64(f)), intWidth(ud))
			}
			t := p.asTerm(x, "conv")
			w := intWidth(ud)
			if t.W == w {
				return t
			}
			if t.W > w {
				return p.ctx.Extract(t, 0, w)
			}
			if isUnsigned(src) {
				return p.ctx.Zext(t, w)
			}
			return p.ctx.Sext(t, w)
		case ud.Info()&types.IsFloat != 0:
			if f, ok := x.(float64); ok {
				if ud.Kind() == types.Float32 {
					return float64(float32(f))
				}
				return f
			}
			t := p.asTerm(x, "conv")
			if !t.IsConst() {
				// floats are not encoded: the value may only flow into calls that ignore it (metrics)
				return Poison{Why: "float conversion of a symbolic integer (floating point is not encoded)"}
			}
			if isUnsigned(src) {
				return float64(t.K)
			}
			return float64(sext64(t.K, t.W))
		case ud.Info()&types.IsBoolean != 0:
			return x
		}
	}
	panic(unsupported{fmt.Sprintf("conversion %v -> %v", src, dst)})
}

// ---------------------------------------------------------------- builtins

func (p *Path) callBuiltin(caller *frame, fn *ssa.Builtin, args []Value) Value {
	c := p.ctx
	switch fn.Name() {
	case "append":
		if bl, ok := args[0].(*Blob); ok {
			return p.blobAppend(bl, args[1])
		}
		if bl, ok := args[1].(*Blob); ok {
			return p.appendBlob(args[0], bl)
		}
		s0, _ := args[0].([]Value)
		var add []Value
		switch y := args[1].(type) {
		case []Value:
			add = y
		case string, SymStr:
			add = p.termsToSlice(p.toSymStr(y))
		case nil:
		default:
			panic(unsupported{fmt.Sprintf("append of %T", y)})
		}
		if len(add) == 0 {
			return args[0]
		}
		n := len(s0) + len(add)
		var r []Value
		if n <= cap(s0) {
			r = s0[:n]
		} else {
			nc := 2 * cap(s0)
			if nc < n {
				nc = n
			}
			if nc < 8 {
				nc = 8
			}
			r = make([]Value, n, nc)
			copy(r, s0)
		}
		for i, e := range add {
			r[len(s0)+i] = copyVal(e)
		}
		return r
	case "copy":
		if _, ok := args[0].(*Blob); ok {
			return p.blobCopy(args[0], args[1])
		}
		if _, ok := args[1].(*Blob); ok {
			return p.blobCopy(args[0], args[1])
		}
		dst, _ := args[0].([]Value)
		var src []Value
		switch y := args[1].(type) {
		case []Value:
			src = y
		case string, SymStr:
			src = p.termsToSlice(p.toSymStr(y))
		}
		n := len(dst)
		if len(src) < n {
			n = len(src)
		}
		if n > 0 {
			// overlapping copies behave like memmove
			tmp := make([]Value, n)
			for i := 0; i < n; i++ {
				tmp[i] = copyVal(src[i])
			}
			copy(dst, tmp)
		}
		return c.BV(uint64(n), 64)
	case "len":
		switch x := args[0].(type) {
		case []Value:
			return c.BV(uint64(len(x)), 64)
		case string:
			return c.BV(uint64(len(x)), 64)
		case SymStr:
			return c.BV(uint64(len(x)), 64)
		case *Map:
			if x == nil {
				return c.BV(0, 64)
			}
			return c.BV(uint64(len(x.K)), 64)
		case *Chan:
			if x == nil {
				return c.BV(0, 64)
			}
			return c.BV(uint64(len(x.buf)), 64)
		case Array:
			return c.BV(uint64(len(x)), 64)
		case *Value:
			return c.BV(uint64(len((*x).(Array))), 64)
		case *Blob:
			if x == nil || x.Nil {
				return c.BV(0, 64)
			}
			return x.Len
		case Poison:
			panic(unsupported{"use of poisoned value: " + x.Why})
		}
		panic(unsupported{fmt.Sprintf("len of %T", args[0])})
	case "cap":
		switch x := args[0].(type) {
		case []Value:
			return c.BV(uint64(cap(x)), 64)
		case *Chan:
			if x == nil {
				return c.BV(0, 64)
			}
			return c.BV(uint64(x.cap), 64)
		case Array:
			return c.BV(uint64(len(x)), 64)
		case *Blob:
			if x == nil || x.Nil {
				return c.BV(0, 64)
			}
			if x.Cap != nil {
				return x.Cap
			}
			return x.Len
		}
		panic(unsupported{fmt.Sprintf("cap of %T", args[0])})
	case "delete":
		m, _ := args[0].(*Map)
		p.mapDelete(m, args[1])
		return nil
	case "clear":
		switch x := args[0].(type) {
		case *Map:
			if x != nil {
				x.K, x.V = nil, nil
			}
		case []Value:
			for i := range x {
				x[i] = nil
			}
		}
		return nil
	case "close":
		p.chanClose(args[0])
		return nil
	case "panic":
		panic(targetPanic{args[0]})
	case "recover":
		return p.doRecover(caller)
	case "print", "println":
		return nil
	case "min", "max":
		r := p.asTerm(args[0], fn.Name())
		sig := fn.Type().(*types.Signature)
		uns := isUnsigned(sig.Params().At(0).Type())
		for _, a := range args[1:] {
			t := p.asTerm(a, fn.Name())
			var lt *Term
			if uns {
				lt = c.Ult(t, r)
			} else {
				lt = c.Slt(t, r)
			}
			if fn.Name() == "max" {
				// r = max(r,t) = ite(r<t, t, r)
				var gt *Term
				if uns {
					gt = c.Ult(r, t)
				} else {
					gt = c.Slt(r, t)
				}
				r = c.Ite(gt, t, r)
				continue
			}
			r = c.Ite(lt, t, r)
		}
		return r
	case "ssa:wrapnilchk":
		if isNilPtr(args[0]) {
			p.goPanicRuntime("value method called using nil pointer")
		}
		return args[0]
	case "ssa:deferstack":
		return &caller.defers
	}
	panic(unsupported{"builtin " + fn.Name()})
}
