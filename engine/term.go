package main

// Hash-consed term DAG over Bool and fixed-width bit-vectors, with a light
// simplifier (constant folding and a few identities: enough to keep every
// value that is concrete in Go concrete in the engine), an evaluator under a
// model, and an SMT-LIB2 printer.

import (
	"fmt"
	"math/bits"
	"strings"
)

type Op uint8

const (
	OConst Op = iota
	OSym
	ONot
	OAnd
	OOr
	OIte
	OEq
	OUlt
	OUle
	OSlt
	OSle
	OAdd
	OSub
	OMul
	OUdiv
	OUrem
	OSdiv
	OSrem
	OBand
	OBor
	OBxor
	OBnot
	ONeg
	OShl
	OLshr
	OAshr
	OZext
	OSext
	OExtract // k = lo; width = result width
	OConcat
	OApp // uninterpreted function application: name, args; width result
)

var opNames = map[Op]string{
	ONot: "not", OAnd: "and", OOr: "or", OIte: "ite", OEq: "=", OUlt: "bvult", OUle: "bvule",
	OSlt: "bvslt", OSle: "bvsle", OAdd: "bvadd", OSub: "bvsub", OMul: "bvmul", OUdiv: "bvudiv",
	OUrem: "bvurem", OSdiv: "bvsdiv", OSrem: "bvsrem", OBand: "bvand", OBor: "bvor", OBxor: "bvxor",
	OBnot: "bvnot", ONeg: "bvneg", OShl: "bvshl", OLshr: "bvlshr", OAshr: "bvashr", OConcat: "concat",
}

// Term: W == 0 means Bool; otherwise bit-vector of width W (1..64).
type Term struct {
	Op   Op
	W    uint8
	K    uint64 // constant value / extract low bit
	Name string // symbol / function name
	A    []*Term
	ID   int
}

type tkey struct {
	op         Op
	w          uint8
	k          uint64
	name       string
	n          int
	a0, a1, a2 int
}

type TermCtx struct {
	tab     map[tkey]*Term
	tabN    map[string]*Term // terms with more than 3 arguments
	terms   []*Term
	syms    []*Term
	funs    map[string]string // uninterpreted function declarations: name -> decl text
	T, F    *Term
	evalVal []uint64
	evalGen []uint32
	gen     uint32
	small8  [256]*Term
	small32 [256]*Term
	small64 [256]*Term
}

func NewTermCtx() *TermCtx {
	c := &TermCtx{tab: make(map[tkey]*Term, 1024), tabN: map[string]*Term{}, funs: map[string]string{}}
	c.T = c.mk(&Term{Op: OConst, W: 0, K: 1})
	c.F = c.mk(&Term{Op: OConst, W: 0, K: 0})
	return c
}

func (c *TermCtx) mk(t *Term) *Term {
	if len(t.A) <= 3 {
		k := tkey{op: t.Op, w: t.W, k: t.K, name: t.Name, n: len(t.A), a0: -1, a1: -1, a2: -1}
		if len(t.A) > 0 {
			k.a0 = t.A[0].ID
		}
		if len(t.A) > 1 {
			k.a1 = t.A[1].ID
		}
		if len(t.A) > 2 {
			k.a2 = t.A[2].ID
		}
		if x, ok := c.tab[k]; ok {
			return x
		}
		t.ID = len(c.terms)
		c.terms = append(c.terms, t)
		c.tab[k] = t
	} else {
		var sb strings.Builder
		fmt.Fprintf(&sb, "%d/%d/%d/%s", t.Op, t.W, t.K, t.Name)
		for _, a := range t.A {
			fmt.Fprintf(&sb, ",%d", a.ID)
		}
		k := sb.String()
		if x, ok := c.tabN[k]; ok {
			return x
		}
		t.ID = len(c.terms)
		c.terms = append(c.terms, t)
		c.tabN[k] = t
	}
	if t.Op == OSym {
		c.syms = append(c.syms, t)
	}
	return t
}

// urange returns conservative unsigned bounds of a bit-vector term.
func urange(t *Term, depth int) (uint64, uint64) { return urangeB(t, depth, nil) }

// boundsLookup supplies externally known bounds of a term (path facts).
type boundsLookup func(t *Term) (lo, hi uint64, ok bool)

// urangeB is urange refined by externally known bounds.
func urangeB(t *Term, depth int, look boundsLookup) (uint64, uint64) {
	lo, hi := urangeS(t, depth, look)
	if look != nil && t.Op != OConst {
		if l, h, ok := look(t); ok {
			if l > lo {
				lo = l
			}
			if h < hi {
				hi = h
			}
		}
	}
	return lo, hi
}

func urangeS(t *Term, depth int, look boundsLookup) (uint64, uint64) {
	urange := func(t *Term, depth int) (uint64, uint64) { return urangeB(t, depth, look) }
	m := mask(t.W)
	if t.W == 0 {
		return 0, 1
	}
	if depth > 12 {
		return 0, m
	}
	switch t.Op {
	case OConst:
		return t.K, t.K
	case OZext:
		return urange(t.A[0], depth+1)
	case OExtract:
		if t.K == 0 {
			lo, hi := urange(t.A[0], depth+1)
			if hi <= m {
				return lo, hi
			}
		}
		return 0, m
	case OBand:
		_, h0 := urange(t.A[0], depth+1)
		_, h1 := urange(t.A[1], depth+1)
		if h1 < h0 {
			h0 = h1
		}
		return 0, h0
	case OBor, OBxor:
		_, h0 := urange(t.A[0], depth+1)
		_, h1 := urange(t.A[1], depth+1)
		if h1 > h0 {
			h0 = h1
		}
		// smallest all-ones mask covering h0
		r := uint64(0)
		for r < h0 {
			r = r<<1 | 1
		}
		if r > m {
			r = m
		}
		lo := uint64(0)
		if t.Op == OBor {
			l0, _ := urange(t.A[0], depth+1)
			l1, _ := urange(t.A[1], depth+1)
			lo = l0
			if l1 > lo {
				lo = l1
			}
		}
		return lo, r
	case OIte:
		l1, h1 := urange(t.A[1], depth+1)
		l2, h2 := urange(t.A[2], depth+1)
		if l2 < l1 {
			l1 = l2
		}
		if h2 > h1 {
			h1 = h2
		}
		return l1, h1
	case OLshr:
		if t.A[1].IsConst() {
			lo, hi := urange(t.A[0], depth+1)
			sh := t.A[1].K
			if sh >= uint64(t.W) {
				return 0, 0
			}
			return lo >> sh, hi >> sh
		}
		_, hi := urange(t.A[0], depth+1)
		return 0, hi
	case OAdd:
		l0, h0 := urange(t.A[0], depth+1)
		l1, h1 := urange(t.A[1], depth+1)
		if h0 <= m-h1 && h0+h1 >= h0 { // no overflow
			return l0 + l1, h0 + h1
		}
	case OUdiv:
		if t.A[1].IsConst() && t.A[1].K != 0 {
			lo, hi := urange(t.A[0], depth+1)
			return lo / t.A[1].K, hi / t.A[1].K
		}
	case OUrem:
		if t.A[1].IsConst() && t.A[1].K != 0 {
			return 0, t.A[1].K - 1
		}
	case OShl:
		if t.A[1].IsConst() {
			_, hi := urange(t.A[0], depth+1)
			sh := t.A[1].K
			if sh < uint64(t.W) && hi <= m>>sh {
				return 0, hi << sh
			}
		}
	}
	return 0, m
}

// isConstTree: a constant, or an ite whose branches are const trees.
func isConstTree(t *Term, depth int) bool {
	if t.Op == OConst {
		return true
	}
	if t.Op != OIte || depth > 8 {
		return false
	}
	return isConstTree(t.A[1], depth+1) && isConstTree(t.A[2], depth+1)
}

func mask(w uint8) uint64 {
	if w >= 64 {
		return ^uint64(0)
	}
	return (uint64(1) << w) - 1
}

func (t *Term) IsConst() bool { return t.Op == OConst }
func (t *Term) IsBool() bool  { return t.W == 0 }
func (t *Term) IsTrue() bool  { return t.Op == OConst && t.W == 0 && t.K == 1 }
func (t *Term) IsFalse() bool { return t.Op == OConst && t.W == 0 && t.K == 0 }

func sext64(v uint64, w uint8) int64 {
	if w >= 64 {
		return int64(v)
	}
	sh := 64 - uint(w)
	return int64(v<<sh) >> sh
}

func (c *TermCtx) Bool(b bool) *Term {
	if b {
		return c.T
	}
	return c.F
}

func (c *TermCtx) BV(v uint64, w uint8) *Term {
	if w == 0 {
		panic("BV width 0")
	}
	v &= mask(w)
	// fast path for the constants that dominate interpretation
	if v < 256 {
		var slot **Term
		switch w {
		case 8:
			slot = &c.small8[v]
		case 64:
			slot = &c.small64[v]
		case 32:
			slot = &c.small32[v]
		}
		if slot != nil {
			if *slot == nil {
				*slot = c.mk(&Term{Op: OConst, W: w, K: v})
			}
			return *slot
		}
	}
	return c.mk(&Term{Op: OConst, W: w, K: v})
}

func (c *TermCtx) Sym(name string, w uint8) *Term {
	return c.mk(&Term{Op: OSym, W: w, Name: name})
}

// App builds an uninterpreted function application.
func (c *TermCtx) App(name string, w uint8, args ...*Term) *Term {
	if _, ok := c.funs[name]; !ok {
		var sb strings.Builder
		fmt.Fprintf(&sb, "(declare-fun %s (", name)
		for i, a := range args {
			if i > 0 {
				sb.WriteByte(' ')
			}
			sb.WriteString(sortName(a.W))
		}
		fmt.Fprintf(&sb, ") %s)", sortName(w))
		c.funs[name] = sb.String()
	}
	return c.mk(&Term{Op: OApp, W: w, Name: name, A: args})
}

func sortName(w uint8) string {
	if w == 0 {
		return "Bool"
	}
	return fmt.Sprintf("(_ BitVec %d)", w)
}

func (c *TermCtx) Not(a *Term) *Term {
	if a.W != 0 {
		panic("Not on non-bool")
	}
	if a.IsConst() {
		return c.Bool(a.K == 0)
	}
	if a.Op == ONot {
		return a.A[0]
	}
	return c.mk(&Term{Op: ONot, A: []*Term{a}})
}

func (c *TermCtx) And(a, b *Term) *Term {
	if a.IsConst() {
		if a.K == 1 {
			return b
		}
		return c.F
	}
	if b.IsConst() {
		if b.K == 1 {
			return a
		}
		return c.F
	}
	if a == b {
		return a
	}
	if (a.Op == ONot && a.A[0] == b) || (b.Op == ONot && b.A[0] == a) {
		return c.F
	}
	return c.mk(&Term{Op: OAnd, A: []*Term{a, b}})
}

func (c *TermCtx) Or(a, b *Term) *Term {
	if a.IsConst() {
		if a.K == 1 {
			return c.T
		}
		return b
	}
	if b.IsConst() {
		if b.K == 1 {
			return c.T
		}
		return a
	}
	if a == b {
		return a
	}
	if (a.Op == ONot && a.A[0] == b) || (b.Op == ONot && b.A[0] == a) {
		return c.T
	}
	return c.mk(&Term{Op: OOr, A: []*Term{a, b}})
}

func (c *TermCtx) Implies(a, b *Term) *Term { return c.Or(c.Not(a), b) }

func (c *TermCtx) AndN(ts ...*Term) *Term {
	r := c.T
	for _, t := range ts {
		r = c.And(r, t)
	}
	return r
}

func (c *TermCtx) OrN(ts ...*Term) *Term {
	r := c.F
	for _, t := range ts {
		r = c.Or(r, t)
	}
	return r
}

func (c *TermCtx) Ite(cond, a, b *Term) *Term {
	if cond.W != 0 {
		panic("Ite cond non-bool")
	}
	if a.W != b.W {
		panic(fmt.Sprintf("Ite width mismatch %d %d", a.W, b.W))
	}
	if cond.IsConst() {
		if cond.K == 1 {
			return a
		}
		return b
	}
	if a == b {
		return a
	}
	if a.W == 0 {
		if a.IsTrue() && b.IsFalse() {
			return cond
		}
		if a.IsFalse() && b.IsTrue() {
			return c.Not(cond)
		}
		if a.IsTrue() {
			return c.Or(cond, b)
		}
		if a.IsFalse() {
			return c.And(c.Not(cond), b)
		}
		if b.IsTrue() {
			return c.Or(c.Not(cond), a)
		}
		if b.IsFalse() {
			return c.And(cond, a)
		}
	}
	if cond.Op == ONot {
		return c.Ite(cond.A[0], b, a)
	}
	// ite(c, ite(c, x, y), z) = ite(c, x, z)
	if a.Op == OIte && a.A[0] == cond {
		return c.Ite(cond, a.A[1], b)
	}
	if b.Op == OIte && b.A[0] == cond {
		return c.Ite(cond, a, b.A[2])
	}
	return c.mk(&Term{Op: OIte, W: a.W, A: []*Term{cond, a, b}})
}

func (c *TermCtx) Eq(a, b *Term) *Term {
	if a.W != b.W {
		panic(fmt.Sprintf("Eq width mismatch %d %d", a.W, b.W))
	}
	if a == b {
		return c.T
	}
	if a.IsConst() && b.IsConst() {
		return c.Bool(a.K == b.K)
	}
	if a.W == 0 {
		if a.IsConst() {
			if a.K == 1 {
				return b
			}
			return c.Not(b)
		}
		if b.IsConst() {
			if b.K == 1 {
				return a
			}
			return c.Not(a)
		}
	}
	// ite-tree with constant leaves == constant: push the comparison to the leaves
	if b.IsConst() && a.Op == OIte && isConstTree(a, 0) {
		return c.Ite(a.A[0], c.Eq(a.A[1], b), c.Eq(a.A[2], b))
	}
	if a.IsConst() && b.Op == OIte && isConstTree(b, 0) {
		return c.Ite(b.A[0], c.Eq(b.A[1], a), c.Eq(b.A[2], a))
	}
	// a constant outside the other side's value range
	if a.W != 0 {
		if b.IsConst() && !a.IsConst() {
			if lo, hi := urange(a, 0); b.K < lo || b.K > hi {
				return c.F
			}
		}
		if a.IsConst() && !b.IsConst() {
			if lo, hi := urange(b, 0); a.K < lo || a.K > hi {
				return c.F
			}
		}
	}
	// zext(x) == const
	if b.IsConst() && a.Op == OZext {
		x := a.A[0]
		if b.K > mask(x.W) {
			return c.F
		}
		return c.Eq(x, c.BV(b.K, x.W))
	}
	if a.IsConst() && b.Op == OZext {
		return c.Eq(b, a)
	}
	if a.ID > b.ID {
		a, b = b, a
	}
	return c.mk(&Term{Op: OEq, A: []*Term{a, b}})
}

func (c *TermCtx) Ne(a, b *Term) *Term { return c.Not(c.Eq(a, b)) }

func (c *TermCtx) cmp(op Op, a, b *Term) *Term {
	if a.W != b.W || a.W == 0 {
		panic(fmt.Sprintf("cmp width mismatch %d %d", a.W, b.W))
	}
	if a.IsConst() && b.IsConst() {
		switch op {
		case OUlt:
			return c.Bool(a.K < b.K)
		case OUle:
			return c.Bool(a.K <= b.K)
		case OSlt:
			return c.Bool(sext64(a.K, a.W) < sext64(b.K, b.W))
		case OSle:
			return c.Bool(sext64(a.K, a.W) <= sext64(b.K, b.W))
		}
	}
	if a == b {
		return c.Bool(op == OUle || op == OSle)
	}
	// canonical form: a <= b  ==  !(b < a)
	if op == OUle {
		return c.Not(c.cmp(OUlt, b, a))
	}
	if op == OSle {
		return c.Not(c.cmp(OSlt, b, a))
	}
	if op == OUlt {
		alo, ahi := urange(a, 0)
		blo, bhi := urange(b, 0)
		if ahi < blo {
			return c.T
		}
		if alo >= bhi {
			return c.F
		}
	}
	if op == OSlt {
		// both provably non-negative: same as unsigned
		_, ahi := urange(a, 0)
		_, bhi := urange(b, 0)
		top := uint64(1) << (a.W - 1)
		if ahi < top && bhi < top {
			return c.cmp(OUlt, a, b)
		}
	}
	if b.IsConst() && a.Op == OIte && isConstTree(a, 0) {
		return c.Ite(a.A[0], c.cmp(op, a.A[1], b), c.cmp(op, a.A[2], b))
	}
	if a.IsConst() && b.Op == OIte && isConstTree(b, 0) {
		return c.Ite(b.A[0], c.cmp(op, a, b.A[1]), c.cmp(op, a, b.A[2]))
	}
	switch op {
	case OUlt:
		if b.IsConst() && b.K == 0 {
			return c.F
		}
		if a.IsConst() && a.K == mask(a.W) {
			return c.F
		}
	case OUle:
		if a.IsConst() && a.K == 0 {
			return c.T
		}
		if b.IsConst() && b.K == mask(b.W) {
			return c.T
		}
	}
	// comparisons of zext'd values against constants / each other
	if op == OUlt || op == OUle {
		if a.Op == OZext && b.Op == OZext && a.A[0].W == b.A[0].W {
			return c.cmp(op, a.A[0], b.A[0])
		}
		if a.Op == OZext && b.IsConst() {
			x := a.A[0]
			if b.K > mask(x.W) {
				return c.T
			}
			return c.cmp(op, x, c.BV(b.K, x.W))
		}
		if b.Op == OZext && a.IsConst() {
			x := b.A[0]
			if a.K > mask(x.W) {
				return c.F
			}
			return c.cmp(op, c.BV(a.K, x.W), x)
		}
	}
	if op == OSlt || op == OSle {
		// zext values are non-negative when the source is narrower
		if a.Op == OZext && a.A[0].W < a.W && b.IsConst() && sext64(b.K, b.W) >= 0 {
			uop := OUlt
			if op == OSle {
				uop = OUle
			}
			return c.cmp(uop, a, b)
		}
		if b.Op == OZext && b.A[0].W < b.W && a.IsConst() && sext64(a.K, a.W) >= 0 {
			uop := OUlt
			if op == OSle {
				uop = OUle
			}
			return c.cmp(uop, a, b)
		}
		if a.Op == OZext && a.A[0].W < a.W && b.IsConst() && sext64(b.K, b.W) < 0 {
			return c.F
		}
		if b.Op == OZext && b.A[0].W < b.W && a.IsConst() && sext64(a.K, a.W) < 0 {
			return c.T
		}
	}
	return c.mk(&Term{Op: op, A: []*Term{a, b}})
}

func (c *TermCtx) Ult(a, b *Term) *Term { return c.cmp(OUlt, a, b) }
func (c *TermCtx) Ule(a, b *Term) *Term { return c.cmp(OUle, a, b) }
func (c *TermCtx) Slt(a, b *Term) *Term { return c.cmp(OSlt, a, b) }
func (c *TermCtx) Sle(a, b *Term) *Term { return c.cmp(OSle, a, b) }
func (c *TermCtx) Ugt(a, b *Term) *Term { return c.cmp(OUlt, b, a) }
func (c *TermCtx) Uge(a, b *Term) *Term { return c.cmp(OUle, b, a) }
func (c *TermCtx) Sgt(a, b *Term) *Term { return c.cmp(OSlt, b, a) }
func (c *TermCtx) Sge(a, b *Term) *Term { return c.cmp(OSle, b, a) }

func foldBin(op Op, x, y uint64, w uint8) (uint64, bool) {
	m := mask(w)
	switch op {
	case OAdd:
		return (x + y) & m, true
	case OSub:
		return (x - y) & m, true
	case OMul:
		return (x * y) & m, true
	case OUdiv:
		if y == 0 {
			return m, true
		}
		return x / y, true
	case OUrem:
		if y == 0 {
			return x, true
		}
		return x % y, true
	case OSdiv:
		sx, sy := sext64(x, w), sext64(y, w)
		if sy == 0 {
			if sx < 0 {
				return 1, true
			}
			return m, true
		}
		if sy == -1 {
			return uint64(-sx) & m, true
		}
		return uint64(sx/sy) & m, true
	case OSrem:
		sx, sy := sext64(x, w), sext64(y, w)
		if sy == 0 {
			return x, true
		}
		if sy == -1 {
			return 0, true
		}
		return uint64(sx%sy) & m, true
	case OBand:
		return x & y, true
	case OBor:
		return x | y, true
	case OBxor:
		return x ^ y, true
	case OShl:
		if y >= uint64(w) {
			return 0, true
		}
		return (x << y) & m, true
	case OLshr:
		if y >= uint64(w) {
			return 0, true
		}
		return x >> y, true
	case OAshr:
		sx := sext64(x, w)
		if y >= uint64(w) {
			y = uint64(w) - 1
		}
		return uint64(sx>>y) & m, true
	}
	return 0, false
}

func (c *TermCtx) Bin(op Op, a, b *Term) *Term {
	if a.W != b.W || a.W == 0 {
		panic(fmt.Sprintf("Bin %v width mismatch %d %d", opNames[op], a.W, b.W))
	}
	if a.IsConst() && b.IsConst() {
		if v, ok := foldBin(op, a.K, b.K, a.W); ok {
			return c.BV(v, a.W)
		}
	}
	if b.IsConst() && a.Op == OIte && isConstTree(a, 0) {
		return c.Ite(a.A[0], c.Bin(op, a.A[1], b), c.Bin(op, a.A[2], b))
	}
	if a.IsConst() && b.Op == OIte && isConstTree(b, 0) {
		return c.Ite(b.A[0], c.Bin(op, a, b.A[1]), c.Bin(op, a, b.A[2]))
	}
	switch op {
	case OAdd:
		if a.IsConst() && a.K == 0 {
			return b
		}
		if b.IsConst() && b.K == 0 {
			return a
		}
		// (x + k1) + k2
		if b.IsConst() && a.Op == OAdd && a.A[1].IsConst() {
			return c.Bin(OAdd, a.A[0], c.BV(a.A[1].K+b.K, a.W))
		}
		if a.IsConst() {
			a, b = b, a
		}
	case OSub:
		if b.IsConst() && b.K == 0 {
			return a
		}
		if a == b {
			return c.BV(0, a.W)
		}
		if b.IsConst() {
			return c.Bin(OAdd, a, c.BV(-b.K, a.W))
		}
	case OMul:
		if a.IsConst() {
			a, b = b, a
		}
		if b.IsConst() {
			if b.K == 0 {
				return b
			}
			if b.K == 1 {
				return a
			}
		}
	case OBand:
		if a.IsConst() {
			a, b = b, a
		}
		if b.IsConst() {
			if b.K == 0 {
				return b
			}
			if b.K == mask(a.W) {
				return a
			}
		}
		if a == b {
			return a
		}
	case OBor, OBxor:
		if a.IsConst() {
			a, b = b, a
		}
		if b.IsConst() && b.K == 0 {
			return a
		}
		if op == OBor && b.IsConst() && b.K == mask(a.W) {
			return b
		}
		if a == b {
			if op == OBor {
				return a
			}
			return c.BV(0, a.W)
		}
	case OShl, OLshr, OAshr:
		if b.IsConst() && b.K == 0 {
			return a
		}
		if a.IsConst() && a.K == 0 {
			return a
		}
	case OUdiv, OSdiv:
		if b.IsConst() && b.K == 1 {
			return a
		}
	}
	return c.mk(&Term{Op: op, W: a.W, A: []*Term{a, b}})
}

func (c *TermCtx) Add(a, b *Term) *Term { return c.Bin(OAdd, a, b) }
func (c *TermCtx) Sub(a, b *Term) *Term { return c.Bin(OSub, a, b) }

func (c *TermCtx) Bnot(a *Term) *Term {
	if a.IsConst() {
		return c.BV(^a.K, a.W)
	}
	if a.Op == OBnot {
		return a.A[0]
	}
	return c.mk(&Term{Op: OBnot, W: a.W, A: []*Term{a}})
}

func (c *TermCtx) Neg(a *Term) *Term {
	if a.IsConst() {
		return c.BV(-a.K, a.W)
	}
	return c.mk(&Term{Op: ONeg, W: a.W, A: []*Term{a}})
}

func (c *TermCtx) Zext(a *Term, w uint8) *Term {
	if a.W == w {
		return a
	}
	if a.W > w {
		return c.Extract(a, 0, w)
	}
	if a.IsConst() {
		return c.BV(a.K, w)
	}
	if a.Op == OZext {
		return c.Zext(a.A[0], w)
	}
	if a.Op == OIte && isConstTree(a, 0) {
		return c.Ite(a.A[0], c.Zext(a.A[1], w), c.Zext(a.A[2], w))
	}
	return c.mk(&Term{Op: OZext, W: w, A: []*Term{a}})
}

func (c *TermCtx) Sext(a *Term, w uint8) *Term {
	if a.W == w {
		return a
	}
	if a.W > w {
		return c.Extract(a, 0, w)
	}
	if a.IsConst() {
		return c.BV(uint64(sext64(a.K, a.W)), w)
	}
	if a.Op == OZext && a.A[0].W < a.W {
		return c.Zext(a.A[0], w)
	}
	return c.mk(&Term{Op: OSext, W: w, A: []*Term{a}})
}

// Extract returns bits [lo, lo+w) of a.
func (c *TermCtx) Extract(a *Term, lo uint8, w uint8) *Term {
	if lo == 0 && w == a.W {
		return a
	}
	if a.IsConst() {
		return c.BV(a.K>>lo, w)
	}
	if a.Op == OIte && isConstTree(a, 0) {
		return c.Ite(a.A[0], c.Extract(a.A[1], lo, w), c.Extract(a.A[2], lo, w))
	}
	if (a.Op == OBand || a.Op == OBor || a.Op == OBxor) && a.A[1].IsConst() {
		// bitwise op with a constant commutes with extraction
		return c.Bin(a.Op, c.Extract(a.A[0], lo, w), c.BV(a.A[1].K>>lo, w))
	}
	if (a.Op == OZext || a.Op == OSext) && lo+w <= a.A[0].W {
		return c.Extract(a.A[0], lo, w)
	}
	if a.Op == OExtract {
		return c.Extract(a.A[0], lo+uint8(a.K), w)
	}
	if (a.Op == OZext || a.Op == OSext) && lo == 0 && w <= a.A[0].W {
		return c.Extract(a.A[0], 0, w)
	}
	if a.Op == OZext && lo >= a.A[0].W {
		return c.BV(0, w)
	}
	if a.Op == OLshr && a.A[1].IsConst() && a.A[1].K < uint64(a.W) && uint64(lo)+uint64(w)+a.A[1].K <= uint64(a.W) {
		// the bits of a right shift by a constant are bits of the operand
		return c.Extract(a.A[0], lo+uint8(a.A[1].K), w)
	}
	if a.Op == OConcat {
		hi, lw := a.A[0], a.A[1]
		if lo+w <= lw.W {
			return c.Extract(lw, lo, w)
		}
		if lo >= lw.W {
			return c.Extract(hi, lo-lw.W, w)
		}
	}
	return c.mk(&Term{Op: OExtract, W: w, K: uint64(lo), A: []*Term{a}})
}

func (c *TermCtx) Concat(hi, lo *Term) *Term {
	if hi.IsConst() && lo.IsConst() {
		return c.BV(hi.K<<lo.W|lo.K, hi.W+lo.W)
	}
	if hi.IsConst() && hi.K == 0 {
		return c.Zext(lo, hi.W+lo.W)
	}
	if hi.Op == OExtract && lo.Op == OExtract && hi.A[0] == lo.A[0] && hi.K == lo.K+uint64(lo.W) {
		// adjacent slices of the same term
		return c.Extract(hi.A[0], uint8(lo.K), hi.W+lo.W)
	}
	if lo.Op == OConcat && hi.Op == OExtract && lo.A[0].Op == OExtract && hi.A[0] == lo.A[0].A[0] && hi.K == lo.A[0].K+uint64(lo.A[0].W) {
		return c.Concat(c.Extract(hi.A[0], uint8(lo.A[0].K), hi.W+lo.A[0].W), lo.A[1])
	}
	return c.mk(&Term{Op: OConcat, W: hi.W + lo.W, A: []*Term{hi, lo}})
}

// ---------------------------------------------------------------- evaluation

// Model maps symbol names to values. Missing symbols evaluate to 0.
type Model map[string]uint64

// Eval evaluates t under m. The memo argument is kept for API compatibility;
// memoisation uses generation-stamped slices inside the context.
func (c *TermCtx) Eval(t *Term, m Model, memo map[int]uint64) (uint64, bool) {
	c.gen++
	if c.gen == 0 {
		for i := range c.evalGen {
			c.evalGen[i] = 0
		}
		c.gen = 1
	}
	if len(c.evalVal) < len(c.terms) {
		n := len(c.terms) + 1024
		nv := make([]uint64, n)
		ng := make([]uint32, n)
		copy(nv, c.evalVal)
		copy(ng, c.evalGen)
		c.evalVal, c.evalGen = nv, ng
	}
	return c.eval(t, m)
}

func (c *TermCtx) eval(t *Term, m Model) (uint64, bool) {
	if c.evalGen[t.ID] == c.gen {
		return c.evalVal[t.ID], true
	}
	var r uint64
	switch t.Op {
	case OConst:
		r = t.K
	case OSym:
		r = m[t.Name] & mask64(t.W)
	case OApp:
		return 0, false
	default:
		var av [3]uint64
		for i, a := range t.A {
			v, ok := c.eval(a, m)
			if !ok {
				return 0, false
			}
			av[i] = v
		}
		switch t.Op {
		case ONot:
			r = av[0] ^ 1
		case OAnd:
			r = av[0] & av[1]
		case OOr:
			r = av[0] | av[1]
		case OIte:
			if av[0] == 1 {
				r = av[1]
			} else {
				r = av[2]
			}
		case OEq:
			r = b2u(av[0] == av[1])
		case OUlt:
			r = b2u(av[0] < av[1])
		case OUle:
			r = b2u(av[0] <= av[1])
		case OSlt:
			r = b2u(sext64(av[0], t.A[0].W) < sext64(av[1], t.A[0].W))
		case OSle:
			r = b2u(sext64(av[0], t.A[0].W) <= sext64(av[1], t.A[0].W))
		case OBnot:
			r = ^av[0] & mask(t.W)
		case ONeg:
			r = -av[0] & mask(t.W)
		case OZext:
			r = av[0]
		case OSext:
			r = uint64(sext64(av[0], t.A[0].W)) & mask(t.W)
		case OExtract:
			r = (av[0] >> t.K) & mask(t.W)
		case OConcat:
			r = av[0]<<t.A[1].W | av[1]
		default:
			v, ok := foldBin(t.Op, av[0], av[1], t.W)
			if !ok {
				return 0, false
			}
			r = v
		}
	}
	c.evalVal[t.ID] = r
	c.evalGen[t.ID] = c.gen
	return r, true
}

func mask64(w uint8) uint64 {
	if w == 0 {
		return 1
	}
	return mask(w)
}

func b2u(b bool) uint64 {
	if b {
		return 1
	}
	return 0
}

// ---------------------------------------------------------------- printing

func constText(t *Term) string {
	if t.W == 0 {
		if t.K == 1 {
			return "true"
		}
		return "false"
	}
	if t.W%4 == 0 {
		return fmt.Sprintf("#x%0*x", int(t.W/4), t.K)
	}
	return fmt.Sprintf("#b%0*b", int(t.W), t.K)
}

// ref returns the SMT text referring to t, assuming t has been defined.
func ref(t *Term) string {
	switch t.Op {
	case OConst:
		return constText(t)
	case OSym:
		return t.Name
	}
	return fmt.Sprintf("t%d", t.ID)
}

// body returns the defining expression of t over refs of its args.
func body(t *Term) string {
	var sb strings.Builder
	switch t.Op {
	case OZext:
		fmt.Fprintf(&sb, "((_ zero_extend %d) %s)", t.W-t.A[0].W, ref(t.A[0]))
	case OSext:
		fmt.Fprintf(&sb, "((_ sign_extend %d) %s)", t.W-t.A[0].W, ref(t.A[0]))
	case OExtract:
		fmt.Fprintf(&sb, "((_ extract %d %d) %s)", uint64(t.W)+t.K-1, t.K, ref(t.A[0]))
	case OApp:
		if len(t.A) == 0 {
			return t.Name
		}
		fmt.Fprintf(&sb, "(%s", t.Name)
		for _, a := range t.A {
			sb.WriteByte(' ')
			sb.WriteString(ref(a))
		}
		sb.WriteByte(')')
	default:
		fmt.Fprintf(&sb, "(%s", opNames[t.Op])
		for _, a := range t.A {
			sb.WriteByte(' ')
			sb.WriteString(ref(a))
		}
		sb.WriteByte(')')
	}
	return sb.String()
}

// String renders a term as a nested expression (debugging / samples).
func (t *Term) String() string {
	return t.str(0)
}

func (t *Term) str(depth int) string {
	switch t.Op {
	case OConst:
		if t.W == 0 {
			return constText(t)
		}
		return fmt.Sprintf("%d", t.K)
	case OSym:
		return t.Name
	}
	if depth > 6 {
		return "…"
	}
	var sb strings.Builder
	name := opNames[t.Op]
	switch t.Op {
	case OZext:
		name = "zext"
	case OSext:
		name = "sext"
	case OExtract:
		name = fmt.Sprintf("extract[%d+%d]", t.K, t.W)
	case OApp:
		name = t.Name
	}
	sb.WriteString("(" + name)
	for _, a := range t.A {
		sb.WriteByte(' ')
		sb.WriteString(a.str(depth + 1))
	}
	sb.WriteByte(')')
	return sb.String()
}

var _ = bits.Len64
