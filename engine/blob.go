package main

// Blob slices: symbolic length, opaque content. (Filled in with the size-threshold harnesses.)

import "go/types"

func (p *Path) makeSymSlice(elem types.Type, n *Term, capv Value) Value {
	panic(unsupported{"make with symbolic length"})
}

// blobSlice: only the identity slice b[0:] / b[0:len(b)] is supported.
func (p *Path) blobSlice(b *Blob, lo, hi, max Value) Value {
	isZero := func(v Value) bool {
		if v == nil {
			return true
		}
		t, ok := v.(*Term)
		return ok && t.IsConst() && t.K == 0
	}
	isLen := func(v Value) bool {
		if v == nil {
			return true
		}
		t, ok := v.(*Term)
		return ok && t == b.Len
	}
	if isZero(lo) && isLen(hi) && (max == nil || isLen(max)) {
		return b
	}
	panic(unsupported{"slicing a blob (other than the whole of it)"})
}

func (p *Path) blobAppend(b *Blob, add Value) Value {
	panic(unsupported{"append to a blob"})
}

func (p *Path) appendBlob(dst Value, b *Blob) Value {
	panic(unsupported{"append of a blob"})
}

func (p *Path) blobCopy(dst, src Value) Value {
	panic(unsupported{"copy involving a blob"})
}
