package main

// Blob slices: symbolic length, opaque content. (Filled in with the size-threshold harnesses.)

import "go/types"

func (p *Path) makeSymSlice(elem types.Type, n *Term, capv Value) Value {
	panic(unsupported{"make with symbolic length"})
}

func (p *Path) blobSlice(b *Blob, lo, hi, max Value) Value {
	panic(unsupported{"slicing a blob"})
}

func (p *Path) blobAppend(b *Blob, add Value) Value {
	panic(unsupported{"append to a blob"})
}

func (p *Path) appendBlob(dst Value, b *Blob) Value {
	panic(unsupported{"append of a blob"})
}

func (p *Path) blobCopy(dst, src Value) Value {
	panic(unsupported{"copy involving a blob"})
}
