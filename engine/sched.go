package main

// Goroutines, channels and select. Interpreted goroutines are real Go
// goroutines that pass a baton: exactly one runs at a time. The running
// goroutine keeps the baton until it parks on a channel operation, finishes
// or yields; which runnable goroutine continues is a decision point, so the
// interleavings (at the granularity of blocking operations, plus optional
// preemption after every communication) are explored like any other fork.

import (
	"fmt"
	"go/types"

	"golang.org/x/tools/go/ssa"
)

type Chan struct {
	id     int
	buf    []Value
	cap    int
	closed bool
	elemT  types.Type
	// model hooks: a channel whose readiness is driven by the harness (ticker, ctx.Done)
	name string
}

type waitCase struct {
	ch   *Chan
	send bool
	val  Value
}

type Goroutine struct {
	id       int
	wake     chan struct{}
	done     bool
	started  bool
	parked   bool
	cases    []waitCase
	fired    int
	recvVal  Value
	recvOK   bool
	runnable bool
	name     string
	coroWait bool // waiting in coroswitch (or a coroutine not started yet): not schedulable
	sleeping bool // in time.Sleep / verif.Tick: runs again only when nothing else can run
}

type Sched struct {
	gs      []*Goroutine
	killed  bool
	abort   interface{}
	preempt bool
	exited  chan struct{}
	live    int
}

func (p *Path) initSched() {
	p.sched = &Sched{exited: make(chan struct{}, 64)}
	main := &Goroutine{id: 0, wake: make(chan struct{}, 1), started: true, name: "main"}
	p.sched.gs = []*Goroutine{main}
	p.cur = main
}

func (p *Path) makeChan(t types.Type, size int) *Chan {
	p.nextID++
	return &Chan{id: p.nextID, cap: size, elemT: t.Underlying().(*types.Chan).Elem()}
}

func (p *Path) goStart(fn Value, args []Value) {
	s := p.sched
	g := &Goroutine{id: len(s.gs), wake: make(chan struct{}, 1), runnable: true}
	if f, ok := fn.(*ssa.Function); ok {
		g.name = f.Name()
	} else if c, ok := fn.(*Closure); ok {
		g.name = c.Fn.Name()
	}
	s.gs = append(s.gs, g)
	s.live++
	go func() {
		<-g.wake
		defer func() {
			r := recover()
			g.done = true
			g.runnable = false
			if s.killed {
				s.exited <- struct{}{}
				return
			}
			if r != nil {
				if _, isEnd := r.(goroutineKilled); !isEnd {
					s.abort = r
				}
			}
			s.exited <- struct{}{}
			// hand the baton on
			if s.abort != nil {
				p.wakeG(s.gs[0])
				return
			}
			p.scheduleNext(g)
		}()
		if s.killed {
			panic(goroutineKilled{})
		}
		g.started = true
		p.cur = g
		p.call(nil, fn, args)
	}()
}

type goroutineKilled struct{}
type deadlock struct{ msg string }

func (p *Path) wakeG(g *Goroutine) {
	g.wake <- struct{}{}
}

// candidates returns goroutines that can run now.
func (p *Path) candidates() []*Goroutine {
	var r []*Goroutine
	for _, g := range p.sched.gs {
		if g.done || g.coroWait || g.sleeping {
			continue
		}
		if g.runnable {
			r = append(r, g)
			continue
		}
		if g.parked && g.fired < 0 && p.anyReady(g) {
			r = append(r, g)
		}
	}
	return r
}

// scheduleNext passes the baton from 'from' (which is parked, done or
// yielding) to a runnable goroutine chosen by a decision. It does not return
// control to 'from'; the caller must then wait on from.wake (if not done).
func (p *Path) scheduleNext(from *Goroutine) {
	s := p.sched
	if s.killed {
		return
	}
	defer func() {
		// a failing decision (engine error) inside a non-main goroutine
		if r := recover(); r != nil {
			s.abort = r
			if from.id != 0 {
				p.wakeG(s.gs[0])
			} else {
				panic(r)
			}
		}
	}()
	cands := p.candidates()
	if len(cands) == 0 {
		// time passes only when nothing else can run: wake the sleepers
		for _, g := range s.gs {
			if !g.done && g.sleeping {
				g.sleeping = false
				g.runnable = true
				cands = append(cands, g)
			}
		}
	}
	if len(cands) == 0 {
		// nothing can run: deadlock (if main is not finished)
		s.abort = deadlock{p.describeBlocked()}
		if from.id != 0 {
			p.wakeG(s.gs[0])
			return
		}
		panic(s.abort)
	}
	pick := 0
	if len(cands) > 1 {
		pick = p.chooseFree("sched", len(cands))
	}
	g := cands[pick]
	g.runnable = false
	if g == from {
		// continue running: signal via own wake channel
		p.wakeG(g)
		return
	}
	p.wakeG(g)
}

func (p *Path) describeBlocked() string {
	s := ""
	for _, g := range p.sched.gs {
		if g.done {
			continue
		}
		s += fmt.Sprintf("[g%d %s:", g.id, g.name)
		for _, c := range g.cases {
			dir := "recv"
			if c.send {
				dir = "send"
			}
			if c.ch == nil {
				s += " " + dir + "(nil chan)"
			} else {
				s += fmt.Sprintf(" %s(ch%d %s)", dir, c.ch.id, c.ch.name)
			}
		}
		s += "]"
	}
	return s
}

// park blocks the current goroutine until one of its cases fired (or it is
// chosen because a case became ready).
func (p *Path) park(g *Goroutine) {
	g.parked = true
	p.scheduleNext(g)
	<-g.wake
	s := p.sched
	if s.killed {
		panic(goroutineKilled{})
	}
	if g.id == 0 && s.abort != nil {
		a := s.abort
		panic(a)
	}
	p.cur = g
	g.parked = false
}

// yield lets other runnable goroutines run (verif.Yield, preemption points).
func (p *Path) yield() {
	g := p.cur
	g.runnable = true
	p.scheduleNext(g)
	<-g.wake
	s := p.sched
	if s.killed {
		panic(goroutineKilled{})
	}
	if g.id == 0 && s.abort != nil {
		panic(s.abort)
	}
	p.cur = g
}

// sleep suspends the current goroutine until every other goroutine is blocked
// (the model of time passing: time.Sleep, verif.Tick).
func (p *Path) sleep() {
	g := p.cur
	g.sleeping = true
	p.scheduleNext(g)
	<-g.wake
	s := p.sched
	if s.killed {
		panic(goroutineKilled{})
	}
	if g.id == 0 && s.abort != nil {
		panic(s.abort)
	}
	g.sleeping = false
	p.cur = g
}

// killAll terminates all non-main goroutines at the end of a path.
func (p *Path) killAll() {
	s := p.sched
	if s == nil {
		return
	}
	s.killed = true
	n := 0
	for _, g := range s.gs[1:] {
		if !g.done {
			n++
			select {
			case g.wake <- struct{}{}:
			default:
			}
		}
	}
	for i := 0; i < n; i++ {
		<-s.exited
	}
}

// ------------------------------------------------------------ channel ops

func (p *Path) findParked(ch *Chan, wantSend bool, self *Goroutine) (*Goroutine, int) {
	for _, g := range p.sched.gs {
		if g == self || g.done || !g.parked || g.fired >= 0 {
			continue
		}
		for i, c := range g.cases {
			if c.ch == ch && c.send == wantSend {
				return g, i
			}
		}
	}
	return nil, -1
}

// tryCase attempts a channel operation without blocking.
func (p *Path) tryCase(self *Goroutine, c waitCase) (done bool, v Value, ok bool) {
	ch := c.ch
	if ch == nil {
		return false, nil, false
	}
	if c.send {
		if ch.closed {
			p.goPanicRuntime("send on closed channel")
		}
		if g, i := p.findParked(ch, false, self); g != nil && len(ch.buf) == 0 {
			g.fired, g.recvVal, g.recvOK = i, copyVal(c.val), true
			g.runnable = true
			return true, nil, false
		}
		if len(ch.buf) < ch.cap {
			ch.buf = append(ch.buf, copyVal(c.val))
			return true, nil, false
		}
		return false, nil, false
	}
	if len(ch.buf) > 0 {
		v := ch.buf[0]
		ch.buf = append([]Value(nil), ch.buf[1:]...)
		if g, i := p.findParked(ch, true, self); g != nil {
			ch.buf = append(ch.buf, copyVal(g.cases[i].val))
			g.fired = i
			g.runnable = true
		}
		return true, v, true
	}
	if g, i := p.findParked(ch, true, self); g != nil {
		v := copyVal(g.cases[i].val)
		g.fired = i
		g.runnable = true
		return true, v, true
	}
	if ch.closed {
		return true, p.zero(ch.elemT), false
	}
	return false, nil, false
}

// caseReady reports whether a case could proceed now (no side effects).
func (p *Path) caseReady(self *Goroutine, c waitCase) bool {
	ch := c.ch
	if ch == nil {
		return false
	}
	if c.send {
		if ch.closed {
			return true
		}
		if g, _ := p.findParked(ch, false, self); g != nil && len(ch.buf) == 0 {
			return true
		}
		return len(ch.buf) < ch.cap
	}
	if len(ch.buf) > 0 || ch.closed {
		return true
	}
	g, _ := p.findParked(ch, true, self)
	return g != nil
}

func (p *Path) anyReady(g *Goroutine) bool {
	for _, c := range g.cases {
		if p.caseReady(g, c) {
			return true
		}
	}
	return false
}

func (p *Path) maybePreempt() {
	if p.sched.preempt {
		p.yield()
	}
}

// doCases runs a (blocking or not) select over cases; returns chosen index
// (-1 = default) and the received value.
func (p *Path) doCases(cases []waitCase, blocking bool) (int, Value, bool) {
	g := p.cur
	for {
		var ready []int
		for i, c := range cases {
			if p.caseReady(g, c) {
				ready = append(ready, i)
			}
		}
		if len(ready) > 0 {
			pick := ready[0]
			if len(ready) > 1 {
				pick = ready[p.chooseFree("select", len(ready))]
			}
			done, v, ok := p.tryCase(g, cases[pick])
			if !done {
				panic(engineError{"ready case could not proceed"})
			}
			p.maybePreempt()
			return pick, v, ok
		}
		if !blocking {
			return -1, nil, false
		}
		g.cases = cases
		g.fired = -1
		p.park(g)
		g.cases = nil
		if g.fired >= 0 {
			i := g.fired
			g.fired = -1
			return i, g.recvVal, g.recvOK
		}
		// woken because a case became ready: retry
	}
}

func (p *Path) chanOf(v Value) *Chan {
	switch c := v.(type) {
	case *Chan:
		return c
	case Poison:
		panic(unsupported{"use of poisoned value: " + c.Why})
	}
	if isNilPtr(v) {
		return nil
	}
	panic(unsupported{fmt.Sprintf("channel operation on %T", v)})
}

func (p *Path) chanSend(chv, v Value) {
	ch := p.chanOf(chv)
	p.doCases([]waitCase{{ch: ch, send: true, val: v}}, true)
}

func (p *Path) chanRecv(chv Value, elemT types.Type) (Value, bool) {
	ch := p.chanOf(chv)
	_, v, ok := p.doCases([]waitCase{{ch: ch}}, true)
	if v == nil {
		v = p.zero(elemT)
	}
	return v, ok
}

func (p *Path) chanClose(chv Value) {
	ch := p.chanOf(chv)
	if ch == nil {
		p.goPanicRuntime("close of nil channel")
	}
	if ch.closed {
		p.goPanicRuntime("close of closed channel")
	}
	ch.closed = true
}

func (p *Path) selectOp(fr *frame, instr *ssa.Select) Value {
	cases := make([]waitCase, len(instr.States))
	for i, st := range instr.States {
		cases[i].ch = p.chanOf(fr.get(st.Chan))
		if st.Dir == types.SendOnly {
			cases[i].send = true
			cases[i].val = fr.get(st.Send)
		}
	}
	idx, v, ok := p.doCases(cases, instr.Blocking)
	r := Tuple{p.ctx.BV(uint64(int64(idx)), 64), p.ctx.Bool(ok)}
	for i, st := range instr.States {
		if st.Dir == types.RecvOnly {
			et := st.Chan.Type().Underlying().(*types.Chan).Elem()
			if i == idx && v != nil {
				r = append(r, v)
			} else {
				r = append(r, p.zero(et))
			}
		}
	}
	return r
}

// ------------------------------------------------------------ coroutines
//
// runtime.newcoro / runtime.coroswitch (used by util/iter.Pull through
// linkname): a coroutine is a goroutine that only ever runs while its
// partner waits, with explicit hand-off; no scheduling decision is involved.

type coro struct {
	g      *Goroutine
	resume *Goroutine
	done   bool
}

func (p *Path) coroNew(fn Value, self Value) *coro {
	s := p.sched
	c := &coro{}
	g := &Goroutine{id: len(s.gs), wake: make(chan struct{}, 1), name: "coro", coroWait: true}
	c.g = g
	s.gs = append(s.gs, g)
	go func() {
		<-g.wake
		defer func() {
			r := recover()
			g.done = true
			c.done = true
			if s.killed {
				s.exited <- struct{}{}
				return
			}
			if r != nil {
				if _, isEnd := r.(goroutineKilled); !isEnd {
					s.abort = r
				}
			}
			s.exited <- struct{}{}
			if s.abort != nil {
				p.wakeG(s.gs[0])
				return
			}
			if c.resume != nil {
				c.resume.coroWait = false
				p.wakeG(c.resume)
			}
		}()
		if s.killed {
			panic(goroutineKilled{})
		}
		g.started = true
		g.coroWait = false
		p.cur = g
		p.call(nil, fn, []Value{self})
	}()
	return c
}

func (p *Path) coroSwitch(c *coro) {
	s := p.sched
	me := p.cur
	var target *Goroutine
	if me == c.g {
		target = c.resume
	} else {
		if c.done {
			return
		}
		c.resume = me
		target = c.g
	}
	if target == nil {
		panic(engineError{"coroswitch without a partner"})
	}
	me.coroWait = true
	target.coroWait = false
	p.wakeG(target)
	<-me.wake
	if s.killed {
		panic(goroutineKilled{})
	}
	if me.id == 0 && s.abort != nil {
		panic(s.abort)
	}
	me.coroWait = false
	p.cur = me
}

func init() {
	for _, pkg := range []string{regattaMod + "/util/iter", "iter", "runtime"} {
		pkg := pkg
		reg(pkg+".newcoro", func(p *Path, _ *frame, a []Value) Value {
			no := &NativeObj{Kind: "coro"}
			no.Data = p.coroNew(a[0], no)
			return no
		})
		reg(pkg+".coroswitch", func(p *Path, _ *frame, a []Value) Value {
			p.coroSwitch(pData[*coro](p, a[0], "coroswitch"))
			return nil
		})
	}
}
