package main

// A Path is one execution of a harness entry under a decision prefix.

import (
	"fmt"
	"go/types"
	"os"
	"sort"
	"strings"
	"sync"

	"golang.org/x/tools/go/ssa"
)

var traceUnsat = os.Getenv("SYMGO_TRACE_UNSAT") != ""

// per-site counts of infeasible-branch queries (SYMGO_SITE_STATS=1): where the simplifier could save solver calls
var (
	siteStats map[string]int
	siteMu    sync.Mutex
)

func init() {
	if os.Getenv("SYMGO_SITE_STATS") != "" {
		siteStats = map[string]int{}
	}
}

func dumpSiteStats() {
	if siteStats == nil {
		return
	}
	type kv struct {
		k string
		n int
	}
	var all []kv
	for k, n := range siteStats {
		all = append(all, kv{k, n})
	}
	sort.Slice(all, func(i, j int) bool { return all[i].n > all[j].n })
	for i, e := range all {
		if i >= 40 {
			break
		}
		fmt.Fprintf(os.Stderr, "  unsat-site %8d %s\n", e.n, e.k)
	}
}

// control-flow panics of the engine
type targetPanic struct{ v Value }        // Go-level panic in the interpreted program
type pathEnd struct{ reason string }      // path ends silently (assume false, harness done)
type unsupported struct{ msg string }     // inconclusive
type engineError struct{ msg string }     // bug in the engine
type unwindFailure struct{ where string } // loop bound exceeded

type Decision struct {
	Kind string `json:"kind"`
	N    int    `json:"n"`
	Pick int    `json:"pick"`
	Val  uint64 `json:"val,omitempty"` // enum decisions: the candidate value the options are about
}

type SymRecord struct {
	Name  string   `json:"name"`
	Kind  string   `json:"kind"`
	Terms []*Term  `json:"-"`
	Vals  []uint64 `json:"vals,omitempty"`
}

type Violation struct {
	Label     string
	Model     Model
	Decisions []Decision
	Syms      []SymRecord
	Pos       string
	Notes     []string
}

type PathResult struct {
	Decisions    []Decision
	NewPrefixes  [][]Decision
	Violations   []*Violation
	Inconclusive []string
	Asserts      int // assertions reached
	Trivial      int // discharged by the simplifier
	Discharged   int // discharged by the solver (unsat)
	Covers       map[string]bool
	Ended        string // "", "assume", "panic: …"
	Funcs        map[*ssa.Function]bool
	Steps        int
	Witness      Model
	WitnessSyms  []SymRecord
	FeasUnknown  int
	PanicTop     string
	Notes        []string
}

type Path struct {
	eng           *Engine
	ctx           *TermCtx
	sol           *Solver
	prefix        []Decision
	di            int
	decs          []Decision
	res           *PathResult
	model         Model // satisfies the current path condition, or nil if unknown
	known         map[int]bool
	bounds        map[int][2]uint64 // unsigned bounds of terms implied by the path condition
	site          *frame
	decVal        uint64
	lastNow       *Term
	tickers       []*Chan
	deadlockLabel string
	shortReads    bool
	batchSizes    bool // Batch.Len returns arbitrary non-decreasing values
	spontFlush    bool // a commit may become durable at once (background memtable flush)
	lockModel     bool // sync mutexes block and are scheduling points
	mutexes       map[*Value]*Chan
	yieldAtDB     bool // Pebble DB-handle operations are scheduling points
	sstCuts       bool // sstable.Writer.EstimatedSize returns arbitrary non-decreasing values
	curFr         *frame
	pc            []*Term

	globals map[*ssa.Global]*Value
	symCnt  map[string]int
	syms    []SymRecord
	binds   map[string]Value
	steps   int
	unwind  int
	depth   int
	notes   []string

	sched *Sched
	cur   *Goroutine

	// model state
	pools    map[*Value][]Value
	errs     map[string]Value
	objs     map[string]interface{}
	tolerant bool // inside package init: unsupported ⇒ poison
	mapPerm  bool
	nextID   int
	rtErrT   types.Type
}

func (p *Path) note(format string, a ...interface{}) {
	if len(p.notes) < 64 {
		p.notes = append(p.notes, fmt.Sprintf(format, a...))
	}
}

func (p *Path) fresh(kind string, w uint8) *Term {
	n := p.symCnt[kind]
	p.symCnt[kind] = n + 1
	return p.ctx.Sym(fmt.Sprintf("%s_%d", kind, n), w)
}

// recordSym registers harness-visible nondeterministic values in call order.
func (p *Path) recordSym(kind string, ts ...*Term) {
	name := kind
	if len(ts) > 0 && ts[0].Op == OSym {
		name = ts[0].Name
	}
	p.syms = append(p.syms, SymRecord{Name: name, Kind: kind, Terms: ts})
}

// assume adds c to the path condition; ends the path if it becomes infeasible.
func (p *Path) assume(c *Term) {
	c = p.reduce(c)
	if c.IsTrue() {
		return
	}
	if c.IsFalse() {
		panic(pathEnd{"assume"})
	}
	if p.model != nil {
		if v, ok := p.ctx.Eval(c, p.model, map[int]uint64{}); !ok || v != 1 {
			p.model = nil
		}
	}
	p.pc = append(p.pc, c)
	p.sol.Assert(c)
	p.learn(c, true)
	// feasibility is established lazily (next decision, cover, or path end)
}

// ensureFeasible ends the path if the path condition is unsatisfiable.
func (p *Path) ensureFeasible() {
	if p.model != nil {
		return
	}
	r, m := p.sol.CheckT("feasible", nil, true)
	switch r {
	case ResUnsat:
		panic(pathEnd{"assume"})
	case ResSat:
		p.model = m
	default:
		p.res.FeasUnknown++
	}
}

// addPC adds a condition already known to be feasible.
func (p *Path) addPC(c *Term, m Model) {
	p.pc = append(p.pc, c)
	p.sol.Assert(c)
	p.learn(c, true)
	p.model = m
}

// ---- known literals: facts implied by the path condition, kept syntactically
// so that branches on them (or on boolean combinations of them) need no query.

// learn records that t has the given truth value (t must be implied by the
// path condition), decomposing conjunctions / negated disjunctions.
func (p *Path) learn(t *Term, val bool) {
	if t.IsConst() {
		return
	}
	if p.known == nil {
		p.known = map[int]bool{}
	}
	switch {
	case t.Op == ONot:
		p.learn(t.A[0], !val)
		return
	case t.Op == OAnd && val:
		p.learn(t.A[0], true)
		p.learn(t.A[1], true)
	case t.Op == OOr && !val:
		p.learn(t.A[0], false)
		p.learn(t.A[1], false)
	}
	p.known[t.ID] = val
	p.learnBounds(t, val)
}

// learnBounds records unsigned bounds implied by a comparison with a constant.
func (p *Path) learnBounds(t *Term, val bool) {
	if len(t.A) != 2 || t.A[0].W == 0 {
		return
	}
	a, b := t.A[0], t.A[1]
	set := func(x *Term, lo, hi uint64) {
		if lo > hi {
			return // contradictory: the path is infeasible anyway
		}
		if p.bounds == nil {
			p.bounds = map[int][2]uint64{}
		}
		cur, ok := p.bounds[x.ID]
		if !ok {
			cur = [2]uint64{0, mask(x.W)}
		}
		if lo > cur[0] {
			cur[0] = lo
		}
		if hi < cur[1] {
			cur[1] = hi
		}
		if cur[0] <= cur[1] {
			p.bounds[x.ID] = cur
		}
	}
	switch t.Op {
	case OEq:
		if val {
			if b.IsConst() {
				set(a, b.K, b.K)
			} else if a.IsConst() {
				set(b, a.K, a.K)
			}
		}
	case OUlt, OUle:
		strict := t.Op == OUlt
		if !val { // !(a < b) == b <= a ; !(a <= b) == b < a
			a, b = b, a
			strict = !strict
		}
		// now: a < b (strict) or a <= b
		if b.IsConst() {
			k := b.K
			if strict {
				if k == 0 {
					return
				}
				k--
			}
			set(a, 0, k)
		} else if a.IsConst() {
			k := a.K
			if strict {
				if k == mask(b.W) {
					return
				}
				k++
			}
			set(b, k, mask(b.W))
		}
	case OSlt, OSle:
		// signed comparisons against a non-negative constant bound the value only
		// from one side when the sign is unknown: x <s K (K>=0) says nothing about
		// the unsigned value; K <=s x (K>=0) gives K <= x <= maxInt.
		strict := t.Op == OSlt
		if !val {
			a, b = b, a
			strict = !strict
		}
		if a.IsConst() && a.K <= mask(a.W)>>1 {
			k := a.K
			if strict {
				if k == mask(a.W)>>1 {
					return
				}
				k++
			}
			set(b, k, mask(b.W)>>1)
		} else if b.IsConst() && b.K <= mask(b.W)>>1 {
			// a <s K with a already known non-negative
			if _, hi := urangeB(a, 0, p.lookBounds); hi <= mask(a.W)>>1 {
				k := b.K
				if strict {
					if k == 0 {
						return
					}
					k--
				}
				set(a, 0, k)
			}
		}
	}
}

func (p *Path) lookBounds(t *Term) (uint64, uint64, bool) {
	b, ok := p.bounds[t.ID]
	return b[0], b[1], ok
}

// cmpByRange decides a comparison from value ranges: 1, 0 or -1.
func (p *Path) cmpByRange(t *Term) int {
	if len(p.bounds) == 0 {
		return -1
	}
	a, b := t.A[0], t.A[1]
	if a.W == 0 {
		return -1
	}
	alo, ahi := urangeB(a, 0, p.lookBounds)
	blo, bhi := urangeB(b, 0, p.lookBounds)
	half := mask(a.W) >> 1
	switch t.Op {
	case OEq:
		if ahi < blo || bhi < alo {
			return 0
		}
		if alo == ahi && blo == bhi && alo == blo {
			return 1
		}
	case OSlt, OSle:
		if ahi > half || bhi > half {
			return -1
		}
		fallthrough
	case OUlt, OUle:
		strict := t.Op == OUlt || t.Op == OSlt
		if strict {
			if ahi < blo {
				return 1
			}
			if alo >= bhi {
				return 0
			}
		} else {
			if ahi <= blo {
				return 1
			}
			if alo > bhi {
				return 0
			}
		}
	}
	return -1
}

// eval3 partially evaluates a boolean term under the known literals:
// 1 true, 0 false, -1 unknown.
func (p *Path) eval3(t *Term, depth int) int {
	if t.IsConst() {
		return int(t.K)
	}
	if v, ok := p.known[t.ID]; ok {
		if v {
			return 1
		}
		return 0
	}
	if depth > 24 {
		return -1
	}
	switch t.Op {
	case ONot:
		if r := p.eval3(t.A[0], depth+1); r >= 0 {
			return 1 - r
		}
	case OAnd:
		a, b := p.eval3(t.A[0], depth+1), p.eval3(t.A[1], depth+1)
		if a == 0 || b == 0 {
			return 0
		}
		if a == 1 && b == 1 {
			return 1
		}
	case OOr:
		a, b := p.eval3(t.A[0], depth+1), p.eval3(t.A[1], depth+1)
		if a == 1 || b == 1 {
			return 1
		}
		if a == 0 && b == 0 {
			return 0
		}
	case OIte:
		if t.W != 0 {
			return -1
		}
		switch p.eval3(t.A[0], depth+1) {
		case 1:
			return p.eval3(t.A[1], depth+1)
		case 0:
			return p.eval3(t.A[2], depth+1)
		default:
			a, b := p.eval3(t.A[1], depth+1), p.eval3(t.A[2], depth+1)
			if a >= 0 && a == b {
				return a
			}
		}
	case OEq:
		if t.A[0].W == 0 {
			a, b := p.eval3(t.A[0], depth+1), p.eval3(t.A[1], depth+1)
			if a >= 0 && b >= 0 {
				if a == b {
					return 1
				}
				return 0
			}
		} else {
			return p.cmpByRange(t)
		}
	case OUlt, OUle, OSlt, OSle:
		return p.cmpByRange(t)
	}
	return -1
}

// reduce replaces a boolean term by a constant when the known literals decide it.
func (p *Path) reduce(t *Term) *Term {
	if t.IsConst() || len(p.known) == 0 {
		return t
	}
	switch p.eval3(t, 0) {
	case 1:
		return p.ctx.T
	case 0:
		return p.ctx.F
	}
	return t
}

func (p *Path) evalModel(c *Term) (uint64, bool) {
	if p.model == nil {
		return 0, false
	}
	return p.ctx.Eval(c, p.model, map[int]uint64{})
}

// choose picks one of the mutually exclusive options; alternatives that are
// feasible are queued as new prefixes.
func (p *Path) choose(kind string, opts []*Term) (pick int) {
	if debugPath {
		where := ""
		if p.curFr != nil {
			where = p.curFr.fn.String()
		}
		var os0 []string
		for _, o := range opts {
			os0 = append(os0, o.String())
		}
		defer func() {
			var os1 []string
			for _, o := range opts {
				os1 = append(os1, p.reduce(o).String())
			}
			fmt.Printf("DECIDE %s in %s -> %d\n   opts: %v\n   reduced: %v\n", kind, where, pick, os0, os1)
		}()
	}
	n := len(opts)
	if len(p.known) > 0 {
		ro := make([]*Term, n)
		for i, o := range opts {
			ro[i] = p.reduce(o)
		}
		opts = ro
	}
	// constant options
	nonFalse := 0
	last := -1
	for i, o := range opts {
		if !o.IsFalse() {
			nonFalse++
			last = i
		}
	}
	if nonFalse == 0 {
		panic(pathEnd{"no option in " + kind})
	}
	if nonFalse == 1 && opts[last].IsTrue() {
		return last
	}
	if p.di < len(p.prefix) {
		d := p.prefix[p.di]
		p.di++
		if d.Kind != kind || d.N != n {
			panic(engineError{fmt.Sprintf("decision replay mismatch: have %s/%d want %s/%d (nondeterministic execution?)", kind, n, d.Kind, d.N)})
		}
		p.decs = append(p.decs, d)
		c := opts[d.Pick]
		if !c.IsTrue() {
			p.pc = append(p.pc, c)
			p.sol.Assert(c)
			p.learn(c, true)
			if p.model != nil {
				if v, ok := p.evalModel(c); !ok || v != 1 {
					p.model = nil
				}
			}
		}
		return d.Pick
	}
	// explore: find the feasible options. Options are mutually exclusive;
	// instead of one query per option, ask for a model of "some option not
	// yet known feasible" until that is unsat (|feasible|+1 queries).
	feas := make([]bool, n)
	models := make([]Model, n)
	cnt := 0
	for i, o := range opts {
		if o.IsFalse() {
			continue
		}
		if v, ok := p.evalModel(o); ok && v == 1 {
			feas[i], models[i] = true, p.model
			cnt++
			if debugPath {
				fmt.Printf("   option %d feasible by cached model; PC check under model:\n", i)
				for _, c := range p.pc {
					if x, ok := p.evalModel(c); !ok || x != 1 {
						fmt.Printf("      STALE MODEL: violates %s\n", c.String())
					}
				}
			}
		}
	}
	for {
		rest := p.ctx.F
		nrest, lastRest := 0, -1
		for i, o := range opts {
			if !feas[i] && !o.IsFalse() {
				rest = p.ctx.Or(rest, o)
				nrest++
				lastRest = i
			}
		}
		if nrest == 0 {
			break
		}
		r, m := p.sol.CheckT("choose-"+kind, rest, true)
		if r == ResUnsat {
			if siteStats != nil && p.site != nil {
				bi := -1
				if p.site.prevBlock != nil {
					bi = p.site.prevBlock.Index
				}
				k := fmt.Sprintf("%s %s b%d", kind, p.site.fn.String(), bi)
				siteMu.Lock()
				siteStats[k]++
				siteMu.Unlock()
			}
			if traceUnsat && p.site != nil {
				bi := -1
				if p.site.prevBlock != nil {
					bi = p.site.prevBlock.Index
				}
				fmt.Fprintf(os.Stderr, "UNSAT %s in %s b%d: %s\n", kind, p.site.fn.String(), bi, rest.String())
			}
			break
		}
		if r == ResUnknown {
			for i, o := range opts {
				if !feas[i] && !o.IsFalse() {
					feas[i] = true
					cnt++
				}
			}
			p.res.FeasUnknown++
			break
		}
		found := false
		if nrest == 1 {
			feas[lastRest], models[lastRest] = true, m
			cnt++
			found = true
		} else {
			for i, o := range opts {
				if feas[i] || o.IsFalse() {
					continue
				}
				if v, ok := p.ctx.Eval(o, m, nil); ok && v == 1 {
					feas[i], models[i] = true, m
					cnt++
					found = true
					break
				}
			}
		}
		if !found {
			// model incomplete for evaluation (uninterpreted functions): fall back to per-option queries
			for i, o := range opts {
				if feas[i] || o.IsFalse() {
					continue
				}
				r2, m2 := p.sol.CheckT("choose-fallback", o, true)
				if r2 != ResUnsat {
					feas[i], models[i] = true, m2
					cnt++
					if r2 == ResUnknown {
						p.res.FeasUnknown++
					}
				}
			}
			break
		}
	}
	if cnt == 0 {
		// the path condition itself must have been infeasible (or unknown)
		panic(pathEnd{"infeasible at " + kind})
	}
	pick = -1
	for i := range opts {
		if !feas[i] {
			continue
		}
		if pick < 0 {
			pick = i
			continue
		}
		np := make([]Decision, len(p.decs), len(p.decs)+1)
		copy(np, p.decs)
		np = append(np, Decision{kind, n, i, p.decVal})
		p.res.NewPrefixes = append(p.res.NewPrefixes, np)
	}
	p.decs = append(p.decs, Decision{kind, n, pick, p.decVal})
	if !opts[pick].IsTrue() {
		p.addPC(opts[pick], models[pick])
	}
	return pick
}

func init() { _ = os.Stderr }

// branch decides a boolean condition.
func (p *Path) branch(c *Term) bool {
	c = p.reduce(c)
	if c.IsConst() {
		return c.K == 1
	}
	return p.choose("if", []*Term{c, p.ctx.Not(c)}) == 0
}

// concretize forks over the values lo..hi of t.
func (p *Path) concretize(t *Term, lo, hi int64) int64 {
	if t.IsConst() {
		return sext64(t.K, t.W)
	}
	opts := make([]*Term, 0, hi-lo+1)
	for v := lo; v <= hi; v++ {
		opts = append(opts, p.ctx.Eq(t, p.ctx.BV(uint64(v), t.W)))
	}
	return lo + int64(p.choose("val", opts))
}

// enumerate makes an integer concrete by forking over its feasible values
// (one path per value; at most maxFan values, beyond that: unsupported).
func (p *Path) enumerate(v Value, what string) int64 {
	t, ok := v.(*Term)
	if !ok {
		panic(engineError{fmt.Sprintf("%s: not an integer: %T", what, v)})
	}
	skipRecorded := false
	for i := 0; ; i++ {
		if t.IsConst() {
			return sext64(t.K, t.W)
		}
		if i >= p.eng.maxFan {
			panic(unsupported{what + ": more than " + fmt.Sprint(p.eng.maxFan) + " feasible values for a symbolic size"})
		}
		var mv uint64
		recorded := !skipRecorded && p.di < len(p.prefix) && p.prefix[p.di].Kind == "enum"
		if recorded {
			// replay: the candidate value is part of the recorded decision
			// (it came from a solver model and is not a function of the path)
			mv = p.prefix[p.di].Val
		} else {
			// exploring — or replaying a point where the value was forced
			// (no decision was recorded): any model gives the forced value
			if p.model == nil {
				r, m := p.sol.Check(nil, true)
				if r != ResSat {
					panic(unsupported{what + ": no model available to enumerate a symbolic size"})
				}
				p.model = m
			}
			var ok bool
			mv, ok = p.evalModel(t)
			if !ok {
				panic(unsupported{what + ": cannot evaluate symbolic size"})
			}
		}
		diBefore := p.di
		k := p.ctx.BV(mv, t.W)
		p.decVal = mv
		pick := p.choose("enum", []*Term{p.ctx.Eq(t, k), p.ctx.Ne(t, k)})
		p.decVal = 0
		if pick == 0 {
			return sext64(mv, t.W)
		}
		// the recorded decision belonged to a later enumeration: do not reuse it here
		skipRecorded = recorded && p.di == diBefore
	}
}

// concreteInt returns the value of an integer term that must be concrete.
func (p *Path) concreteInt(v Value, what string) int64 {
	t, ok := v.(*Term)
	if !ok {
		panic(engineError{fmt.Sprintf("%s: not an integer: %T", what, v)})
	}
	if t.IsConst() {
		return sext64(t.K, t.W)
	}
	// a symbolic value that the path condition pins to one value is fine
	if p.model != nil {
		if mv, ok := p.evalModel(t); ok {
			eq := p.ctx.Eq(t, p.ctx.BV(mv, t.W))
			r, _ := p.sol.CheckT("concreteInt", p.ctx.Not(eq), false)
			if r == ResUnsat {
				return sext64(mv, t.W)
			}
		}
	}
	panic(unsupported{what + ": symbolic value where a concrete one is required: " + t.String()})
}

// check is verif.Assert.
func (p *Path) check(c *Term, label string, pos string) {
	p.res.Asserts++
	c = p.reduce(c)
	if c.IsTrue() {
		p.res.Trivial++
		return
	}
	r, m := ResSat, Model(nil)
	if c.IsFalse() {
		if p.model != nil {
			m = p.model
		} else {
			r, m = p.sol.Check(nil, true)
		}
	} else {
		r, m = p.sol.CheckT("assert", p.ctx.Not(c), true)
	}
	switch r {
	case ResUnsat:
		p.res.Discharged++
	case ResSat:
		v := &Violation{Label: label, Model: m, Pos: pos, Notes: append([]string(nil), p.notes...)}
		v.Decisions = append(v.Decisions, p.decs...)
		for _, s := range p.syms {
			s2 := SymRecord{Name: s.Name, Kind: s.Kind}
			memo := map[int]uint64{}
			for _, t := range s.Terms {
				x, _ := p.ctx.Eval(t, m, memo)
				s2.Vals = append(s2.Vals, x)
			}
			v.Syms = append(v.Syms, s2)
		}
		p.res.Violations = append(p.res.Violations, v)
	default:
		p.res.Inconclusive = append(p.res.Inconclusive, "solver unknown on assertion "+label+" at "+pos)
	}
	p.assume(c)
}

func (p *Path) cover(tag string) {
	p.ensureFeasible()
	p.res.Covers[tag] = true
}

// ------------------------------------------------------------------ helpers

func (p *Path) goPanic(v Value) {
	p.ensureFeasible() // a panic on a path whose assumptions cannot hold is not one (feasibility after Assume is checked lazily)
	panic(targetPanic{v})
}

// goPanicRuntime raises a Go runtime error inside the interpreted program.
func (p *Path) goPanicRuntime(msg string) {
	p.ensureFeasible()
	if p.curFr != nil {
		msg += " (in " + p.curFr.fn.String() + ")"
	}
	if p.sol.log != nil {
		p.sol.send("; GOPANIC " + strings.ReplaceAll(msg, "\n", " ") + "\n")
	}
	panic(targetPanic{Iface{T: p.rtErrT, V: "runtime error: " + msg}})
}

func panicString(v Value) string {
	if i, ok := v.(Iface); ok {
		if s, ok := i.V.(string); ok {
			return s
		}
		if i.T != nil {
			return fmt.Sprintf("%s(%s)", i.T, valString(i.V))
		}
	}
	return valString(v)
}

func decisionsString(ds []Decision) string {
	var sb strings.Builder
	for i, d := range ds {
		if i > 0 {
			sb.WriteByte(' ')
		}
		fmt.Fprintf(&sb, "%s:%d/%d", d.Kind, d.Pick, d.N)
		if d.Kind == "enum" {
			fmt.Fprintf(&sb, "=%d", d.Val)
		}
	}
	return sb.String()
}

func sortedKeys(m map[string]bool) []string {
	var r []string
	for k := range m {
		r = append(r, k)
	}
	sort.Strings(r)
	return r
}
