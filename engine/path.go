package main

// A Path is one execution of a harness entry under a decision prefix.

import (
	"fmt"
	"go/types"
	"sort"
	"strings"

	"golang.org/x/tools/go/ssa"
)

// control-flow panics of the engine
type targetPanic struct{ v Value }       // Go-level panic in the interpreted program
type pathEnd struct{ reason string }     // path ends silently (assume false, harness done)
type unsupported struct{ msg string }    // inconclusive
type engineError struct{ msg string }    // bug in the engine
type unwindFailure struct{ where string } // loop bound exceeded

type Decision struct {
	Kind string `json:"kind"`
	N    int    `json:"n"`
	Pick int    `json:"pick"`
}

type SymRecord struct {
	Name  string   `json:"name"`
	Kind  string   `json:"kind"`
	Terms []*Term  `json:"-"`
	Vals  []uint64 `json:"vals,omitempty"`
}

type Violation struct {
	Label     string
	Model     Model
	Decisions []Decision
	Syms      []SymRecord
	Pos       string
	Notes     []string
}

type PathResult struct {
	Decisions    []Decision
	NewPrefixes  [][]Decision
	Violations   []*Violation
	Inconclusive []string
	Asserts      int // assertions reached
	Trivial      int // discharged by the simplifier
	Discharged   int // discharged by the solver (unsat)
	Covers       map[string]bool
	Ended        string // "", "assume", "panic: …"
	Funcs        map[*ssa.Function]bool
	Steps        int
	Witness      Model
	FeasUnknown  int
	PanicTop     string
	Notes        []string
}

type Path struct {
	eng    *Engine
	ctx    *TermCtx
	sol    *Solver
	prefix []Decision
	di     int
	decs   []Decision
	res    *PathResult
	model  Model // satisfies the current path condition, or nil if unknown
	pc     []*Term

	globals map[*ssa.Global]*Value
	symCnt  map[string]int
	syms    []SymRecord
	binds   map[string]Value
	steps   int
	unwind  int
	depth   int
	notes   []string

	sched *Sched
	cur   *Goroutine

	// model state
	pools    map[*Value][]Value
	errs     map[string]Value
	objs     map[string]interface{}
	tolerant bool // inside package init: unsupported ⇒ poison
	mapPerm  bool
	nextID   int
	rtErrT   types.Type
}

func (p *Path) note(format string, a ...interface{}) {
	if len(p.notes) < 64 {
		p.notes = append(p.notes, fmt.Sprintf(format, a...))
	}
}

func (p *Path) fresh(kind string, w uint8) *Term {
	n := p.symCnt[kind]
	p.symCnt[kind] = n + 1
	return p.ctx.Sym(fmt.Sprintf("%s_%d", kind, n), w)
}

// recordSym registers harness-visible nondeterministic values in call order.
func (p *Path) recordSym(kind string, ts ...*Term) {
	name := kind
	if len(ts) > 0 && ts[0].Op == OSym {
		name = ts[0].Name
	}
	p.syms = append(p.syms, SymRecord{Name: name, Kind: kind, Terms: ts})
}

// assume adds c to the path condition; ends the path if it becomes infeasible.
func (p *Path) assume(c *Term) {
	if c.IsTrue() {
		return
	}
	if c.IsFalse() {
		panic(pathEnd{"assume"})
	}
	if p.model != nil {
		if v, ok := p.ctx.Eval(c, p.model, map[int]uint64{}); !ok || v != 1 {
			p.model = nil
		}
	}
	p.pc = append(p.pc, c)
	p.sol.Assert(c)
	if p.model == nil {
		r, m := p.sol.Check(nil, true)
		switch r {
		case ResUnsat:
			panic(pathEnd{"assume"})
		case ResSat:
			p.model = m
		default:
			p.res.FeasUnknown++
		}
	}
}

// addPC adds a condition already known to be feasible.
func (p *Path) addPC(c *Term, m Model) {
	p.pc = append(p.pc, c)
	p.sol.Assert(c)
	p.model = m
}

func (p *Path) evalModel(c *Term) (uint64, bool) {
	if p.model == nil {
		return 0, false
	}
	return p.ctx.Eval(c, p.model, map[int]uint64{})
}

// choose picks one of the mutually exclusive options; alternatives that are
// feasible are queued as new prefixes.
func (p *Path) choose(kind string, opts []*Term) int {
	n := len(opts)
	// constant options
	nonFalse := 0
	last := -1
	for i, o := range opts {
		if !o.IsFalse() {
			nonFalse++
			last = i
		}
	}
	if nonFalse == 0 {
		panic(pathEnd{"no option in " + kind})
	}
	if nonFalse == 1 && opts[last].IsTrue() {
		return last
	}
	if p.di < len(p.prefix) {
		d := p.prefix[p.di]
		p.di++
		if d.Kind != kind || d.N != n {
			panic(engineError{fmt.Sprintf("decision replay mismatch: have %s/%d want %s/%d (nondeterministic execution?)", kind, n, d.Kind, d.N)})
		}
		p.decs = append(p.decs, d)
		c := opts[d.Pick]
		if !c.IsTrue() {
			p.pc = append(p.pc, c)
			p.sol.Assert(c)
			if p.model != nil {
				if v, ok := p.evalModel(c); !ok || v != 1 {
					p.model = nil
				}
			}
		}
		return d.Pick
	}
	// explore: find feasible options
	feas := make([]bool, n)
	models := make([]Model, n)
	cnt := 0
	for i, o := range opts {
		if o.IsFalse() {
			continue
		}
		if v, ok := p.evalModel(o); ok && v == 1 {
			feas[i], models[i] = true, p.model
			cnt++
			continue
		}
		r, m := p.sol.Check(o, true)
		switch r {
		case ResSat:
			feas[i], models[i] = true, m
			cnt++
		case ResUnknown:
			feas[i] = true
			p.res.FeasUnknown++
			cnt++
		}
	}
	if cnt == 0 {
		// the path condition itself must have been infeasible (or unknown)
		panic(pathEnd{"infeasible at " + kind})
	}
	pick := -1
	for i := range opts {
		if !feas[i] {
			continue
		}
		if pick < 0 {
			pick = i
			continue
		}
		np := make([]Decision, len(p.decs), len(p.decs)+1)
		copy(np, p.decs)
		np = append(np, Decision{kind, n, i})
		p.res.NewPrefixes = append(p.res.NewPrefixes, np)
	}
	p.decs = append(p.decs, Decision{kind, n, pick})
	if !opts[pick].IsTrue() {
		p.addPC(opts[pick], models[pick])
	}
	return pick
}

// branch decides a boolean condition.
func (p *Path) branch(c *Term) bool {
	if c.IsConst() {
		return c.K == 1
	}
	return p.choose("if", []*Term{c, p.ctx.Not(c)}) == 0
}

// concretize forks over the values lo..hi of t.
func (p *Path) concretize(t *Term, lo, hi int64) int64 {
	if t.IsConst() {
		return sext64(t.K, t.W)
	}
	opts := make([]*Term, 0, hi-lo+1)
	for v := lo; v <= hi; v++ {
		opts = append(opts, p.ctx.Eq(t, p.ctx.BV(uint64(v), t.W)))
	}
	return lo + int64(p.choose("val", opts))
}

// concreteInt returns the value of an integer term that must be concrete.
func (p *Path) concreteInt(v Value, what string) int64 {
	t, ok := v.(*Term)
	if !ok {
		panic(engineError{fmt.Sprintf("%s: not an integer: %T", what, v)})
	}
	if t.IsConst() {
		return sext64(t.K, t.W)
	}
	// a symbolic value that the path condition pins to one value is fine
	if p.model != nil {
		if mv, ok := p.evalModel(t); ok {
			eq := p.ctx.Eq(t, p.ctx.BV(mv, t.W))
			r, _ := p.sol.Check(p.ctx.Not(eq), false)
			if r == ResUnsat {
				return sext64(mv, t.W)
			}
		}
	}
	panic(unsupported{what + ": symbolic value where a concrete one is required: " + t.String()})
}

// check is verif.Assert.
func (p *Path) check(c *Term, label string, pos string) {
	p.res.Asserts++
	if c.IsTrue() {
		p.res.Trivial++
		return
	}
	r, m := ResSat, Model(nil)
	if c.IsFalse() {
		if p.model != nil {
			m = p.model
		} else {
			r, m = p.sol.Check(nil, true)
		}
	} else {
		r, m = p.sol.Check(p.ctx.Not(c), true)
	}
	switch r {
	case ResUnsat:
		p.res.Discharged++
	case ResSat:
		v := &Violation{Label: label, Model: m, Pos: pos, Notes: append([]string(nil), p.notes...)}
		v.Decisions = append(v.Decisions, p.decs...)
		for _, s := range p.syms {
			s2 := SymRecord{Name: s.Name, Kind: s.Kind}
			memo := map[int]uint64{}
			for _, t := range s.Terms {
				x, _ := p.ctx.Eval(t, m, memo)
				s2.Vals = append(s2.Vals, x)
			}
			v.Syms = append(v.Syms, s2)
		}
		p.res.Violations = append(p.res.Violations, v)
	default:
		p.res.Inconclusive = append(p.res.Inconclusive, "solver unknown on assertion "+label+" at "+pos)
	}
	p.assume(c)
}

func (p *Path) cover(tag string) {
	p.res.Covers[tag] = true
}

// ------------------------------------------------------------------ helpers

func (p *Path) goPanic(v Value) {
	panic(targetPanic{v})
}

// goPanicRuntime raises a Go runtime error inside the interpreted program.
func (p *Path) goPanicRuntime(msg string) {
	panic(targetPanic{Iface{T: p.rtErrT, V: "runtime error: " + msg}})
}

func panicString(v Value) string {
	if i, ok := v.(Iface); ok {
		if s, ok := i.V.(string); ok {
			return s
		}
		if i.T != nil {
			return fmt.Sprintf("%s(%s)", i.T, valString(i.V))
		}
	}
	return valString(v)
}

func decisionsString(ds []Decision) string {
	var sb strings.Builder
	for i, d := range ds {
		if i > 0 {
			sb.WriteByte(' ')
		}
		fmt.Fprintf(&sb, "%s:%d/%d", d.Kind, d.Pick, d.N)
	}
	return sb.String()
}

func sortedKeys(m map[string]bool) []string {
	var r []string
	for k := range m {
		r = append(r, k)
	}
	sort.Strings(r)
	return r
}
