package main

// One live solver process per worker (z3 -in / cvc5 --incremental), fed
// SMT-LIB2 text. Every path starts with (reset); term definitions are emitted
// lazily as (define-fun tN () sort body) at the base level; feasibility and
// assertion queries are push / assert / check-sat / pop.

import (
	"bufio"
	"fmt"
	"io"
	"os"
	"os/exec"
	"strconv"
	"strings"
	"sync"
	"sync/atomic"
	"time"
)

type SolverKind int

const (
	SolverZ3New SolverKind = iota
	SolverZ3Old
	SolverCVC5
)

func (k SolverKind) String() string {
	switch k {
	case SolverZ3New:
		return "z3-new 5.1.0"
	case SolverZ3Old:
		return "z3 4.8.12"
	}
	return "cvc5 1.0"
}

type Solver struct {
	kind      SolverKind
	cmd       *exec.Cmd
	in        io.WriteCloser
	out       *bufio.Reader
	timeoutMs int
	log       io.Writer

	seq     int
	Desyncs int
	// statistics
	Queries   int
	Sat       int
	Unsat     int
	Unknown   int
	SolveTime time.Duration

	// per-path
	ctx     *TermCtx
	defined map[int]bool
	declFun map[string]bool
	dead    bool
}

func NewSolver(kind SolverKind, timeoutMs int) (*Solver, error) {
	s := &Solver{kind: kind, timeoutMs: timeoutMs}
	if p := os.Getenv("SYMGO_SMTLOG"); p != "" {
		f, err := os.OpenFile(p, os.O_CREATE|os.O_WRONLY|os.O_APPEND, 0o644)
		if err == nil {
			s.log = f
		}
	}
	if err := s.start(); err != nil {
		return nil, err
	}
	return s, nil
}

func (s *Solver) start() error {
	var cmd *exec.Cmd
	switch s.kind {
	case SolverZ3New:
		cmd = exec.Command("z3-new", "-in")
	case SolverZ3Old:
		cmd = exec.Command("/usr/bin/z3", "-in")
	case SolverCVC5:
		cmd = exec.Command("cvc5", "--incremental", "--lang=smt2", "--produce-models", fmt.Sprintf("--tlimit-per=%d", s.timeoutMs))
	}
	in, err := cmd.StdinPipe()
	if err != nil {
		return err
	}
	out, err := cmd.StdoutPipe()
	if err != nil {
		return err
	}
	cmd.Stderr = cmd.Stdout
	if err := cmd.Start(); err != nil {
		return err
	}
	s.cmd, s.in, s.out = cmd, in, bufio.NewReaderSize(out, 1<<16)
	s.dead = false
	return nil
}

func (s *Solver) Close() {
	if s.cmd != nil {
		s.in.Close()
		s.cmd.Process.Kill()
		s.cmd.Wait()
		s.cmd = nil
	}
}

func (s *Solver) send(str string) {
	if s.log != nil {
		io.WriteString(s.log, str)
	}
	if _, err := io.WriteString(s.in, str); err != nil {
		s.dead = true
	}
}

// Reset begins a new path over ctx.
func (s *Solver) Reset(ctx *TermCtx) {
	if s.dead {
		s.Close()
		if err := s.start(); err != nil {
			panic(engineError{"cannot restart solver: " + err.Error()})
		}
	}
	s.ctx = ctx
	s.defined = map[int]bool{}
	s.declFun = map[string]bool{}
	switch s.kind {
	case SolverCVC5:
		s.send("(reset)\n(set-logic ALL)\n")
	default:
		s.send(fmt.Sprintf("(reset)\n(set-option :timeout %d)\n", s.timeoutMs))
	}
}

func (s *Solver) define(t *Term, sb *strings.Builder) {
	if t.Op == OConst || s.defined[t.ID] {
		return
	}
	// iterative post-order to avoid deep recursion
	type fr struct {
		t *Term
		i int
	}
	st := []fr{{t, 0}}
	for len(st) > 0 {
		f := &st[len(st)-1]
		if f.t.Op == OConst || s.defined[f.t.ID] {
			st = st[:len(st)-1]
			continue
		}
		if f.i < len(f.t.A) {
			a := f.t.A[f.i]
			f.i++
			if a.Op != OConst && !s.defined[a.ID] {
				st = append(st, fr{a, 0})
			}
			continue
		}
		x := f.t
		s.defined[x.ID] = true
		switch x.Op {
		case OSym:
			fmt.Fprintf(sb, "(declare-const %s %s)\n", x.Name, sortName(x.W))
		case OApp:
			if !s.declFun[x.Name] {
				s.declFun[x.Name] = true
				sb.WriteString(s.ctx.funs[x.Name] + "\n")
			}
			fmt.Fprintf(sb, "(define-fun t%d () %s %s)\n", x.ID, sortName(x.W), body(x))
		default:
			fmt.Fprintf(sb, "(define-fun t%d () %s %s)\n", x.ID, sortName(x.W), body(x))
		}
		st = st[:len(st)-1]
	}
}

// Assert adds t to the base-level assertions of the current path.
func (s *Solver) Assert(t *Term) {
	var sb strings.Builder
	s.define(t, &sb)
	fmt.Fprintf(&sb, "(assert %s)\n", ref(t))
	s.send(sb.String())
}

type SatResult int

const (
	ResUnsat SatResult = iota
	ResSat
	ResUnknown
)

func (r SatResult) String() string { return [...]string{"unsat", "sat", "unknown"}[r] }

func (s *Solver) readLine() (string, error) {
	type res struct {
		s   string
		err error
	}
	ch := make(chan res, 1)
	go func() {
		l, err := s.out.ReadString('\n')
		ch <- res{l, err}
	}()
	select {
	case r := <-ch:
		return strings.TrimSpace(r.s), r.err
	case <-time.After(time.Duration(s.timeoutMs)*time.Millisecond + 20*time.Second):
		s.dead = true
		s.cmd.Process.Kill()
		return "", fmt.Errorf("solver wall-clock timeout")
	}
}

// Check decides satisfiability of base assertions ∧ extra. With wantModel it
// returns values for every declared symbol.
var queryStats sync.Map // tag -> *[3]int64 (unsat, sat, unknown)

func countQuery(tag string, r SatResult) {
	v, _ := queryStats.LoadOrStore(tag, &[3]int64{})
	atomic.AddInt64(&v.(*[3]int64)[r], 1)
}

func (s *Solver) CheckT(tag string, extra *Term, wantModel bool) (SatResult, Model) {
	r, m := s.Check(extra, wantModel)
	countQuery(tag, r)
	return r, m
}

func (s *Solver) Check(extra *Term, wantModel bool) (SatResult, Model) {
	var sb strings.Builder
	if extra != nil {
		s.define(extra, &sb)
		fmt.Fprintf(&sb, "(push 1)\n(assert %s)\n", ref(extra))
	}
	s.seq++
	marker := fmt.Sprintf("sync-%d", s.seq)
	fmt.Fprintf(&sb, "(check-sat)\n(echo \"%s\")\n", marker)
	t0 := time.Now()
	s.send(sb.String())
	s.Queries++
	line, err := s.readLine()
	if err == nil {
		// the echo must follow immediately; anything else means the stream is out of step
		l2, err2 := s.readLine()
		if err2 != nil || !strings.Contains(l2, marker) {
			fmt.Fprintf(os.Stderr, "solver stream out of step: got %q then %q (want %s)\n", line, l2, marker)
			s.dead = true
			line = "unknown"
			s.Desyncs++
		}
	}
	s.SolveTime += time.Since(t0)
	res := ResUnknown
	switch {
	case err != nil:
		s.dead = true
	case line == "sat":
		res = ResSat
	case line == "unsat":
		res = ResUnsat
	case line == "unknown" || line == "timeout":
		res = ResUnknown
	default:
		// (error ...) or anything unexpected: inconclusive; restart the process
		fmt.Fprintf(os.Stderr, "solver said: %q\n", line)
		s.dead = true
		res = ResUnknown
	}
	var model Model
	if res == ResSat && wantModel && !s.dead {
		model = s.getModel()
	}
	if extra != nil && !s.dead {
		s.send("(pop 1)\n")
	}
	switch res {
	case ResSat:
		s.Sat++
	case ResUnsat:
		s.Unsat++
	default:
		s.Unknown++
	}
	return res, model
}

func (s *Solver) getModel() Model {
	m := Model{}
	var names []string
	for _, t := range s.ctx.syms {
		if s.defined[t.ID] {
			names = append(names, t.Name)
		}
	}
	if len(names) == 0 {
		return m
	}
	// chunk to keep lines manageable
	for i := 0; i < len(names); i += 200 {
		j := i + 200
		if j > len(names) {
			j = len(names)
		}
		s.send("(get-value (" + strings.Join(names[i:j], " ") + "))\n")
		// read until parens balance
		depth, started := 0, false
		var buf strings.Builder
		for {
			line, err := s.readLine()
			if err != nil {
				s.dead = true
				return m
			}
			buf.WriteString(line)
			buf.WriteByte(' ')
			for _, ch := range line {
				if ch == '(' {
					depth++
					started = true
				} else if ch == ')' {
					depth--
				}
			}
			if started && depth <= 0 {
				break
			}
		}
		parseValues(buf.String(), m)
	}
	return m
}

// parseValues parses "((a #x01) (b true) (c (_ bv3 8)) ...)".
func parseValues(s string, m Model) {
	toks := tokenize(s)
	// expect ( ( name value ) ... )
	i := 0
	if i < len(toks) && toks[i] == "(" {
		i++
	}
	for i < len(toks) && toks[i] == "(" {
		i++
		if i >= len(toks) {
			return
		}
		name := toks[i]
		i++
		var v uint64
		if i < len(toks) && toks[i] == "(" {
			// (_ bvN W)
			j := i
			for j < len(toks) && toks[j] != ")" {
				j++
			}
			for _, t := range toks[i:j] {
				if strings.HasPrefix(t, "bv") {
					v, _ = strconv.ParseUint(t[2:], 10, 64)
				}
			}
			i = j + 1
		} else if i < len(toks) {
			t := toks[i]
			i++
			switch {
			case t == "true":
				v = 1
			case t == "false":
				v = 0
			case strings.HasPrefix(t, "#x"):
				v, _ = strconv.ParseUint(t[2:], 16, 64)
			case strings.HasPrefix(t, "#b"):
				v, _ = strconv.ParseUint(t[2:], 2, 64)
			}
		}
		m[name] = v
		if i < len(toks) && toks[i] == ")" {
			i++
		}
	}
}

func tokenize(s string) []string {
	var toks []string
	cur := strings.Builder{}
	flush := func() {
		if cur.Len() > 0 {
			toks = append(toks, cur.String())
			cur.Reset()
		}
	}
	for _, ch := range s {
		switch ch {
		case '(', ')':
			flush()
			toks = append(toks, string(ch))
		case ' ', '\t', '\n', '\r':
			flush()
		default:
			cur.WriteRune(ch)
		}
	}
	flush()
	return toks
}
