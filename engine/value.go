package main

// Values of the symbolic interpreter. Layout follows x/tools/go/ssa/interp
// (pointers are Go pointers to cells, aggregates are slices of cells that are
// copied on load/store) with scalars replaced by terms.

import (
	"fmt"
	"go/types"
	"strings"

	"golang.org/x/tools/go/ssa"
)

type Value interface{}

// Scalars (bool and all integer kinds) are *Term.
// Floats are float64 (concrete only). Complex: unsupported.
// Strings are Go string (concrete) or SymStr.
// Pointers are *Value (nil pointer: (*Value)(nil)) or a pointer to an
// engine-native model object.
// Slices are []Value (nil-ness preserved by Go) or *Blob.

type Struct []Value
type Array []Value
type Tuple []Value

// SymStr is a string of concrete length with (possibly) symbolic bytes.
type SymStr []*Term

type Iface struct {
	T types.Type // dynamic type; nil for the nil interface
	V Value
}

type Closure struct {
	Fn  *ssa.Function
	Env []Value
}

// NativeFunc is a function value implemented by the engine (models hand
// these out, e.g. io.Closer.Close of a model object).
type NativeFunc struct {
	Name string
	F    func(p *Path, g *Goroutine, args []Value) Value
}

// Map is an association list in insertion order.
type Map struct {
	K, V []Value
	KT   types.Type
	VT   types.Type
}

// SymElemPtr is a pointer to s[idx] with a symbolic in-range index.
type SymElemPtr struct {
	S   []Value
	Idx *Term
}

// Poison marks a value whose computation was not supported in a tolerant
// context (package initialisation); any use aborts the path as unsupported.
type Poison struct{ Why string }

// Opaque is an environment object with identity only (loggers, sessions…).
type Opaque struct {
	Tag string
	Aux interface{}
}

type rangeIter interface {
	next(p *Path) Tuple
}

func isNilPtr(v Value) bool {
	switch x := v.(type) {
	case nil:
		return true
	case *Value:
		return x == nil
	case *Map:
		return x == nil
	case *Closure:
		return x == nil
	case *Chan:
		return x == nil
	case []Value:
		return x == nil
	case *Blob:
		return x == nil || x.Nil
	case Iface:
		return x.T == nil
	case *Opaque:
		return x == nil
	case *ssa.Function:
		return x == nil
	}
	return false
}

// zero returns the zero value of type t.
func (p *Path) zero(t types.Type) Value {
	switch t := t.(type) {
	case *types.Basic:
		switch {
		case t.Kind() == types.UntypedNil:
			return (*Value)(nil)
		case t.Info()&types.IsBoolean != 0:
			return p.ctx.F
		case t.Info()&types.IsInteger != 0:
			return p.ctx.BV(0, intWidth(t))
		case t.Info()&types.IsFloat != 0:
			return float64(0)
		case t.Info()&types.IsString != 0:
			return ""
		case t.Kind() == types.UnsafePointer:
			return (*Value)(nil)
		}
		panic(unsupported{"zero of basic type " + t.String()})
	case *types.Pointer:
		return (*Value)(nil)
	case *types.Array:
		a := make(Array, t.Len())
		if !lazyZero(t.Elem()) || t.Len() <= 64 {
			for i := range a {
				a[i] = p.zero(t.Elem())
			}
		}
		return a
	case *types.Slice:
		return []Value(nil)
	case *types.Struct:
		s := make(Struct, t.NumFields())
		for i := range s {
			s[i] = p.zero(t.Field(i).Type())
		}
		return s
	case *types.Tuple:
		if t.Len() == 1 {
			return p.zero(t.At(0).Type())
		}
		s := make(Tuple, t.Len())
		for i := range s {
			s[i] = p.zero(t.At(i).Type())
		}
		return s
	case *types.Chan:
		return (*Chan)(nil)
	case *types.Map:
		return (*Map)(nil)
	case *types.Signature:
		return (*Closure)(nil)
	case *types.Interface:
		return Iface{}
	case *types.Named:
		return p.zero(t.Underlying())
	case *types.Alias:
		return p.zero(types.Unalias(t))
	case *types.TypeParam:
		panic(unsupported{"zero of type parameter " + t.String()})
	}
	panic(unsupported{fmt.Sprintf("zero of %T %v", t, t)})
}

// lazyZero reports whether nil cells may stand for the zero value of t
// (scalars only; used for large byte buffers).
func lazyZero(t types.Type) bool {
	b, ok := t.Underlying().(*types.Basic)
	return ok && b.Info()&(types.IsInteger|types.IsBoolean) != 0
}

func intWidth(t *types.Basic) uint8 {
	switch t.Kind() {
	case types.Int8, types.Uint8:
		return 8
	case types.Int16, types.Uint16:
		return 16
	case types.Int32, types.Uint32:
		return 32
	case types.Int64, types.Uint64, types.Int, types.Uint, types.Uintptr, types.UntypedInt, types.UntypedRune:
		return 64
	}
	panic(unsupported{"intWidth of " + t.String()})
}

func isUnsigned(t types.Type) bool {
	b, ok := t.Underlying().(*types.Basic)
	return ok && b.Info()&types.IsUnsigned != 0
}

func isInteger(t types.Type) bool {
	b, ok := t.Underlying().(*types.Basic)
	return ok && b.Info()&types.IsInteger != 0
}

func isString(t types.Type) bool {
	b, ok := t.Underlying().(*types.Basic)
	return ok && b.Info()&types.IsString != 0
}

// copyVal returns a copy of v with value semantics for aggregates.
func copyVal(v Value) Value {
	switch x := v.(type) {
	case Struct:
		c := make(Struct, len(x))
		for i, e := range x {
			c[i] = copyVal(e)
		}
		return c
	case Array:
		c := make(Array, len(x))
		for i, e := range x {
			c[i] = copyVal(e)
		}
		return c
	case Tuple:
		c := make(Tuple, len(x))
		for i, e := range x {
			c[i] = copyVal(e)
		}
		return c
	}
	return v
}

// load reads *addr as type t (nil cells are lazily the zero value).
func (p *Path) load(t types.Type, addr Value) Value {
	switch a := addr.(type) {
	case *Value:
		if a == nil {
			p.goPanicRuntime("invalid memory address or nil pointer dereference")
		}
		if *a == nil {
			z := p.zero(t)
			switch z.(type) {
			case Struct, Array:
				*a = z
			default:
				return z
			}
		}
		if po, ok := (*a).(Poison); ok {
			// an interface-typed cell may hold a value the engine could not compute
			// (an option built by an uninterpreted library): it can be passed around
			// and asked for its origin; any real use of it is still refused
			if _, isIface := t.Underlying().(*types.Interface); isIface {
				return po
			}
			panic(unsupported{"use of poisoned value: " + po.Why})
		}
		return copyVal(*a)
	case *SymElemPtr:
		return p.symElemLoad(a, t)
	case nil:
		p.goPanicRuntime("invalid memory address or nil pointer dereference")
	}
	panic(unsupported{fmt.Sprintf("load through %T", addr)})
}

// assignInPlace overwrites the cell *dst with v. Aggregates are overwritten
// element by element so that pointers to their fields / elements taken
// earlier stay valid (they denote the same memory in Go).
func assignInPlace(dst *Value, v Value) {
	switch nv := v.(type) {
	case Struct:
		if old, ok := (*dst).(Struct); ok && len(old) == len(nv) {
			for i := range nv {
				assignInPlace(&old[i], nv[i])
			}
			return
		}
	case Array:
		if old, ok := (*dst).(Array); ok && len(old) == len(nv) {
			for i := range nv {
				assignInPlace(&old[i], nv[i])
			}
			return
		}
	}
	*dst = copyVal(v)
}

func (p *Path) store(addr Value, v Value) {
	switch a := addr.(type) {
	case *Value:
		if a == nil {
			p.goPanicRuntime("invalid memory address or nil pointer dereference")
		}
		assignInPlace(a, v)
		return
	case *SymElemPtr:
		p.symElemStore(a, v)
		return
	case nil:
		p.goPanicRuntime("invalid memory address or nil pointer dereference")
	}
	panic(unsupported{fmt.Sprintf("store through %T", addr)})
}

func (p *Path) symElemLoad(a *SymElemPtr, t types.Type) Value {
	var r *Term
	for i := len(a.S) - 1; i >= 0; i-- {
		e := a.S[i]
		if e == nil {
			e = p.zero(t)
		}
		et, ok := e.(*Term)
		if !ok {
			panic(unsupported{"symbolic index into non-scalar elements"})
		}
		if r == nil {
			r = et
		} else {
			r = p.ctx.Ite(p.ctx.Eq(a.Idx, p.ctx.BV(uint64(i), 64)), et, r)
		}
	}
	if r == nil {
		panic(engineError{"symElemLoad on empty slice"})
	}
	return r
}

func (p *Path) symElemStore(a *SymElemPtr, v Value) {
	vt, ok := v.(*Term)
	if !ok {
		panic(unsupported{"symbolic-index store of non-scalar"})
	}
	for i := range a.S {
		e := a.S[i]
		var et *Term
		if e == nil {
			et = p.ctx.BV(0, vt.W)
			if vt.W == 0 {
				et = p.ctx.F
			}
		} else {
			et = e.(*Term)
		}
		a.S[i] = p.ctx.Ite(p.ctx.Eq(a.Idx, p.ctx.BV(uint64(i), 64)), vt, et)
	}
}

// ---------------------------------------------------------------- equality

// equalVals returns the term a == b for values of (static) type t.
func (p *Path) equalVals(t types.Type, a, b Value) *Term {
	c := p.ctx
	if po, ok := a.(Poison); ok {
		panic(unsupported{"use of poisoned value: " + po.Why})
	}
	if po, ok := b.(Poison); ok {
		panic(unsupported{"use of poisoned value: " + po.Why})
	}
	switch x := a.(type) {
	case *Term:
		y, ok := b.(*Term)
		if !ok {
			panic(engineError{fmt.Sprintf("equalVals term vs %T", b)})
		}
		return c.Eq(x, y)
	case float64:
		return c.Bool(x == b.(float64))
	case string:
		switch y := b.(type) {
		case string:
			return c.Bool(x == y)
		case SymStr:
			return p.symStrEq(p.toSymStr(x), y)
		}
	case SymStr:
		return p.symStrEq(x, p.toSymStr(b))
	case Struct:
		y := b.(Struct)
		st := t.Underlying().(*types.Struct)
		r := c.T
		for i := range x {
			if st.Field(i).Name() == "_" {
				continue
			}
			r = c.And(r, p.equalVals(st.Field(i).Type(), x[i], y[i]))
		}
		return r
	case Array:
		y := b.(Array)
		et := t.Underlying().(*types.Array).Elem()
		r := c.T
		for i := range x {
			xe, ye := x[i], y[i]
			if xe == nil {
				xe = p.zero(et)
			}
			if ye == nil {
				ye = p.zero(et)
			}
			r = c.And(r, p.equalVals(et, xe, ye))
		}
		return r
	case Iface:
		y, ok := b.(Iface)
		if !ok {
			panic(engineError{fmt.Sprintf("equalVals iface vs %T", b)})
		}
		if x.T == nil || y.T == nil {
			return c.Bool(x.T == nil && y.T == nil)
		}
		if !types.Identical(x.T, y.T) {
			return c.F
		}
		if !types.Comparable(x.T) {
			p.goPanicRuntime("comparing uncomparable type " + x.T.String())
		}
		return p.equalVals(x.T, x.V, y.V)
	case []Value:
		// only comparison with nil is legal
		return c.Bool(x == nil && isNilPtr(b))
	case *Blob:
		if y, ok := b.(*Blob); ok && x != nil && y != nil && !x.Nil && !y.Nil {
			if x == y {
				return c.T
			}
			px, ok1 := x.Data.(*jsonPayload)
			py, ok2 := y.Data.(*jsonPayload)
			if ok1 && ok2 {
				if !types.Identical(px.T, py.T) {
					return c.F
				}
				return p.equalVals(px.T, px.V, py.V)
			}
			panic(unsupported{"comparison of opaque blobs"})
		}
		if s, ok := b.(string); ok && x != nil && !x.Nil {
			if s == "" {
				return c.Eq(x.Len, c.BV(0, 64))
			}
			if _, isJSON := x.Data.(*jsonPayload); isJSON {
				return c.F // a JSON document of a struct is never equal to a plain harness string
			}
			panic(unsupported{"comparison of an opaque blob with a string"})
		}
		return c.Bool(isNilPtr(x) == isNilPtr(b))
	}
	// reference kinds: identity
	if isNilPtr(a) || isNilPtr(b) {
		return c.Bool(isNilPtr(a) && isNilPtr(b))
	}
	switch x := a.(type) {
	case *Closure, *ssa.Function, *ssa.Builtin, *NativeFunc:
		_ = x
		panic(unsupported{"comparison of non-nil funcs"})
	}
	return c.Bool(a == b)
}

func (p *Path) toSymStr(v Value) SymStr {
	switch x := v.(type) {
	case string:
		r := make(SymStr, len(x))
		for i := 0; i < len(x); i++ {
			r[i] = p.ctx.BV(uint64(x[i]), 8)
		}
		return r
	case SymStr:
		return x
	}
	panic(engineError{fmt.Sprintf("toSymStr of %T", v)})
}

// normStr turns an all-constant SymStr into a Go string.
func normStr(s SymStr) Value {
	b := make([]byte, len(s))
	for i, t := range s {
		if !t.IsConst() {
			return s
		}
		b[i] = byte(t.K)
	}
	return string(b)
}

func (p *Path) symStrEq(a, b SymStr) *Term {
	if len(a) != len(b) {
		return p.ctx.F
	}
	r := p.ctx.T
	for i := range a {
		r = p.ctx.And(r, p.ctx.Eq(a[i], b[i]))
	}
	return r
}

// bytesLess returns a < b lexicographically over concrete-length byte terms.
func (p *Path) bytesLess(a, b []*Term) *Term {
	c := p.ctx
	n := len(a)
	if len(b) < n {
		n = len(b)
	}
	// from the back: less_i = a[i]<b[i] || (a[i]==b[i] && less_{i+1}); base = len(a)<len(b)
	r := c.Bool(len(a) < len(b))
	for i := n - 1; i >= 0; i-- {
		r = c.Or(c.Ult(a[i], b[i]), c.And(c.Eq(a[i], b[i]), r))
	}
	return r
}

func (p *Path) bytesEq(a, b []*Term) *Term {
	if len(a) != len(b) {
		return p.ctx.F
	}
	r := p.ctx.T
	for i := range a {
		r = p.ctx.And(r, p.ctx.Eq(a[i], b[i]))
	}
	return r
}

// sliceTerms reads a []byte cell slice as terms.
func (p *Path) sliceTerms(v Value) []*Term {
	s, ok := v.([]Value)
	if !ok {
		if po, ok := v.(Poison); ok {
			panic(unsupported{"use of poisoned value: " + po.Why})
		}
		panic(unsupported{fmt.Sprintf("byte-slice operation on %T", v)})
	}
	r := make([]*Term, len(s))
	for i, e := range s {
		if e == nil {
			r[i] = p.ctx.BV(0, 8)
		} else {
			r[i] = e.(*Term)
		}
	}
	return r
}

func (p *Path) termsToSlice(ts []*Term) []Value {
	r := make([]Value, len(ts))
	for i, t := range ts {
		r[i] = t
	}
	return r
}

func (p *Path) bytesToSlice(b []byte) []Value {
	r := make([]Value, len(b))
	for i, x := range b {
		r[i] = p.ctx.BV(uint64(x), 8)
	}
	return r
}

// concreteBytes returns the bytes of a fully concrete []byte value.
func (p *Path) concreteBytes(v Value) ([]byte, bool) {
	ts := p.sliceTerms(v)
	b := make([]byte, len(ts))
	for i, t := range ts {
		if !t.IsConst() {
			return nil, false
		}
		b[i] = byte(t.K)
	}
	return b, true
}

func (p *Path) concreteString(v Value) (string, bool) {
	switch x := v.(type) {
	case string:
		return x, true
	case SymStr:
		if s, ok := normStr(x).(string); ok {
			return s, true
		}
	}
	return "", false
}

// ---------------------------------------------------------------- printing

func valString(v Value) string {
	switch x := v.(type) {
	case nil:
		return "<nil-cell>"
	case *Term:
		return x.String()
	case string:
		return fmt.Sprintf("%q", x)
	case SymStr:
		return "symstr" + fmt.Sprint(len(x))
	case Struct:
		var sb strings.Builder
		sb.WriteString("{")
		for i, e := range x {
			if i > 0 {
				sb.WriteString(", ")
			}
			sb.WriteString(valString(e))
		}
		sb.WriteString("}")
		return sb.String()
	case []Value:
		if x == nil {
			return "nil-slice"
		}
		var sb strings.Builder
		sb.WriteString("[")
		for i, e := range x {
			if i > 8 {
				sb.WriteString(" …")
				break
			}
			if i > 0 {
				sb.WriteString(" ")
			}
			sb.WriteString(valString(e))
		}
		sb.WriteString("]")
		return sb.String()
	case Iface:
		if x.T == nil {
			return "nil-iface"
		}
		return fmt.Sprintf("iface(%s: %s)", x.T, valString(x.V))
	case *Value:
		if x == nil {
			return "nil-ptr"
		}
		return fmt.Sprintf("&%s", valString(*x))
	}
	return fmt.Sprintf("%T", v)
}
