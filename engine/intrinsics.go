package main

// Intrinsics: callee name -> engine implementation. The verif.* harness API,
// fork-free stdlib helpers, and the M7 family of no-op environment models.

import (
	"fmt"
	"go/types"
	"math/bits"
	"sort"
	"strings"

	"golang.org/x/tools/go/ssa"
)

type intrinsic func(p *Path, caller *frame, args []Value) Value

var intrinsics = map[string]intrinsic{}

const verifPkg = "github.com/jamf/regatta/internal/verif"

func reg(name string, f intrinsic) {
	if _, dup := intrinsics[name]; dup {
		panic("duplicate intrinsic " + name)
	}
	intrinsics[name] = f
}

func regNoop(names ...string) {
	for _, n := range names {
		reg(n, func(p *Path, caller *frame, args []Value) Value { return nil })
	}
}

func (p *Path) boolArg(v Value) *Term { return p.asTerm(v, "bool arg") }

func callerPos(p *Path, caller *frame) string {
	// best effort: position of the harness function
	if caller == nil {
		return ""
	}
	return caller.fn.Name()
}

func init() {
	v := verifPkg + "."
	reg(v+"Bool", func(p *Path, _ *frame, _ []Value) Value {
		t := p.fresh("b", 0)
		p.recordSym("Bool", t)
		return t
	})
	mkInt := func(name string, w uint8) {
		reg(v+name, func(p *Path, _ *frame, _ []Value) Value {
			t := p.fresh(strings.ToLower(name[:1])+fmt.Sprint(w), w)
			p.recordSym(name, t)
			return t
		})
	}
	mkInt("Byte", 8)
	mkInt("Uint16", 16)
	mkInt("Uint32", 32)
	mkInt("Int32", 32)
	mkInt("Uint64", 64)
	mkInt("Int64", 64)
	mkInt("Int", 64)
	reg(v+"IntRange", func(p *Path, _ *frame, a []Value) Value {
		t := p.fresh("i64", 64)
		p.recordSym("IntRange", t)
		p.assume(p.ctx.And(p.ctx.Sle(p.asTerm(a[0], "lo"), t), p.ctx.Sle(t, p.asTerm(a[1], "hi"))))
		return t
	})
	reg(v+"Bytes", func(p *Path, _ *frame, a []Value) Value {
		n := int(p.concreteInt(a[0], "verif.Bytes length"))
		ts := make([]*Term, n)
		r := make([]Value, n)
		for i := range ts {
			ts[i] = p.fresh("y8", 8)
			r[i] = ts[i]
		}
		p.recordSym("Bytes", ts...)
		return r
	})
	reg(v+"String", func(p *Path, _ *frame, a []Value) Value {
		n := int(p.concreteInt(a[0], "verif.String length"))
		ts := make(SymStr, n)
		for i := range ts {
			ts[i] = p.fresh("y8", 8)
		}
		p.recordSym("String", ts...)
		if n == 0 {
			return ""
		}
		return ts
	})
	reg(v+"Concretize", func(p *Path, _ *frame, a []Value) Value {
		t := p.asTerm(a[0], "Concretize")
		lo, hi := p.concreteInt(a[1], "lo"), p.concreteInt(a[2], "hi")
		if hi-lo > 4096 {
			panic(unsupported{"Concretize range too large"})
		}
		return p.ctx.BV(uint64(p.concretize(t, lo, hi)), t.W)
	})
	reg(v+"Choice", func(p *Path, _ *frame, a []Value) Value {
		n := int(p.concreteInt(a[0], "Choice"))
		k := p.chooseFree("choice", n)
		t := p.ctx.BV(uint64(k), 64)
		p.recordSym("Choice", t)
		return t
	})
	reg(v+"Assume", func(p *Path, _ *frame, a []Value) Value {
		p.assume(p.boolArg(a[0]))
		return nil
	})
	reg(v+"Assert", func(p *Path, caller *frame, a []Value) Value {
		label, _ := p.concreteString(a[1])
		p.check(p.boolArg(a[0]), label, callerPos(p, caller))
		return nil
	})
	reg(v+"Cover", func(p *Path, _ *frame, a []Value) Value {
		s, _ := p.concreteString(a[0])
		p.cover(s)
		return nil
	})
	reg(v+"Note", func(p *Path, _ *frame, a []Value) Value {
		s, _ := p.concreteString(a[0])
		p.note("%s", s)
		return nil
	})
	reg(v+"Symbolic", func(p *Path, _ *frame, a []Value) Value { return p.ctx.T })
	reg(v+"Yield", func(p *Path, _ *frame, a []Value) Value { p.yield(); return nil })
	reg(v+"Preempt", func(p *Path, _ *frame, a []Value) Value {
		p.sched.preempt = p.branch(p.boolArg(a[0]))
		return nil
	})
	reg(v+"PermuteMaps", func(p *Path, _ *frame, a []Value) Value {
		p.mapPerm = p.branch(p.boolArg(a[0]))
		return nil
	})
	// Recovered runs f and reports whether it panicked (the panic, if any, is swallowed).
	reg(v+"Panics", func(p *Path, caller *frame, a []Value) Value {
		panicked := false
		func() {
			defer func() {
				if r := recover(); r != nil {
					if tp, ok := r.(targetPanic); ok {
						panicked = true
						p.note("panic: %s", panicString(tp.v))
						return
					}
					panic(r)
				}
			}()
			p.call(caller, a[0], nil)
		}()
		return p.ctx.Bool(panicked)
	})

	// ---- fork-free byte helpers
	reg("internal/bytealg.Compare", func(p *Path, _ *frame, a []Value) Value {
		return p.bytesCompare(p.sliceTerms(a[0]), p.sliceTerms(a[1]))
	})
	reg("bytes.Compare", func(p *Path, _ *frame, a []Value) Value {
		return p.bytesCompare(p.sliceTerms(a[0]), p.sliceTerms(a[1]))
	})
	reg("bytes.Equal", func(p *Path, _ *frame, a []Value) Value {
		return p.bytesEq(p.sliceTerms(a[0]), p.sliceTerms(a[1]))
	})
	reg("internal/bytealg.Equal", func(p *Path, _ *frame, a []Value) Value {
		return p.bytesEq(p.sliceTerms(a[0]), p.sliceTerms(a[1]))
	})
	reg("strings.Compare", func(p *Path, _ *frame, a []Value) Value {
		return p.bytesCompare(p.toSymStr(a[0]), p.toSymStr(a[1]))
	})
	reg("internal/bytealg.IndexByte", func(p *Path, _ *frame, a []Value) Value {
		return p.indexByte(p.sliceTerms(a[0]), p.asTerm(a[1], "IndexByte"))
	})
	reg("internal/bytealg.IndexByteString", func(p *Path, _ *frame, a []Value) Value {
		return p.indexByte(p.toSymStr(a[0]), p.asTerm(a[1], "IndexByte"))
	})
	reg("internal/bytealg.MakeNoZero", func(p *Path, _ *frame, a []Value) Value {
		return make([]Value, p.concreteInt(a[0], "MakeNoZero"))
	})
	reg("internal/bytealg.CountString", func(p *Path, _ *frame, a []Value) Value {
		s, ok := p.concreteString(a[0])
		b := p.asTerm(a[1], "Count")
		if !ok || !b.IsConst() {
			panic(unsupported{"bytealg.CountString on symbolic data"})
		}
		return p.ctx.BV(uint64(strings.Count(s, string([]byte{byte(b.K)}))), 64)
	})
	strIndex := func(p *Path, _ *frame, a []Value) Value {
		h, n := p.toSymStr(a[0]), p.toSymStr(a[1])
		c := p.ctx
		r := c.BV(^uint64(0), 64)
		for i := len(h) - len(n); i >= 0; i-- {
			m := c.T
			for j := range n {
				m = c.And(m, c.Eq(h[i+j], n[j]))
			}
			r = c.Ite(m, c.BV(uint64(i), 64), r)
		}
		return r
	}
	// strings.EqualFold over ASCII data (summary of the standard library's
	// fast path); any byte that may be >= 0x80 is refused unless concrete.
	reg("strings.EqualFold", func(p *Path, _ *frame, a []Value) Value {
		xs, xok := p.concreteString(a[0])
		ys, yok := p.concreteString(a[1])
		if xok && yok {
			return p.ctx.Bool(strings.EqualFold(xs, ys))
		}
		x, y := p.toSymStr(a[0]), p.toSymStr(a[1])
		c := p.ctx
		high := c.F
		for _, b := range append(append([]*Term{}, x...), y...) {
			high = c.Or(high, c.Ule(c.BV(0x80, 8), b))
		}
		if p.branch(high) {
			panic(unsupported{"strings.EqualFold on possibly non-ASCII symbolic data"})
		}
		if len(x) != len(y) {
			return c.F
		}
		r := c.T
		for i := range x {
			lx, ly := c.Bin(OBor, x[i], c.BV(0x20, 8)), c.Bin(OBor, y[i], c.BV(0x20, 8))
			letter := c.And(c.Ule(c.BV('a', 8), lx), c.Ule(lx, c.BV('z', 8)))
			r = c.And(r, c.Or(c.Eq(x[i], y[i]), c.And(letter, c.Eq(lx, ly))))
		}
		return r
	})
	// byte-order loads as concatenations (the source's shift-and-or form is
	// equivalent; this form lets a value written with Put* and read back collapse to itself)
	for _, bo := range []struct {
		recv string
		big  bool
	}{{"(encoding/binary.littleEndian)", false}, {"(encoding/binary.bigEndian)", true}} {
		for _, n := range []int{2, 4, 8} {
			n, big := n, bo.big
			reg(fmt.Sprintf("%s.Uint%d", bo.recv, n*8), func(p *Path, _ *frame, a []Value) Value {
				b := p.sliceTerms(a[1])
				if len(b) < n {
					p.goPanicRuntime("index out of range [" + fmt.Sprint(n-1) + "] with length " + fmt.Sprint(len(b)))
				}
				var r *Term
				for i := 0; i < n; i++ { // from the least significant byte up
					x := b[i]
					if big {
						x = b[n-1-i]
					}
					if r == nil {
						r = x
					} else {
						r = p.ctx.Concat(x, r)
					}
				}
				return r
			})
		}
	}
	reg("internal/bytealg.IndexString", strIndex)
	reg("internal/stringslite.Index", strIndex)
	reg("strings.Index", strIndex)
	reg("internal/abi.NoEscape", func(p *Path, _ *frame, a []Value) Value { return a[0] })
	reg("(*strings.Builder).String", func(p *Path, _ *frame, a []Value) Value {
		cell := a[0].(*Value)
		if *cell == nil {
			return ""
		}
		st := (*cell).(Struct) // {addr *Builder, buf []byte}
		buf, _ := st[1].([]Value)
		return normStr(SymStr(p.sliceTerms(buf)))
	})
	reg("(*strings.Builder).copyCheck", func(p *Path, _ *frame, a []Value) Value { return nil })
	reg("unsafe.String", func(p *Path, _ *frame, a []Value) Value {
		panic(unsupported{"unsafe.String"})
	})
	reg("unsafe.StringData", func(p *Path, _ *frame, a []Value) Value {
		panic(unsupported{"unsafe.StringData"})
	})

	// ---- errors / fmt (M7)
	reg("errors.Is", func(p *Path, _ *frame, a []Value) Value {
		return p.ctx.Bool(p.errorsIs(a[0], a[1], 0))
	})
	reg("errors.As", func(p *Path, _ *frame, a []Value) Value {
		return p.errorsAs(a[0], a[1])
	})
	reg("errors.Unwrap", func(p *Path, _ *frame, a []Value) Value {
		if w := p.errUnwrap(a[0]); w != nil {
			return w[0]
		}
		return Iface{}
	})
	reg("errors.Join", func(p *Path, _ *frame, a []Value) Value {
		var errs []Value
		for _, e := range a[0].([]Value) {
			if !isNilPtr(e) {
				errs = append(errs, e)
			}
		}
		if len(errs) == 0 {
			return Iface{}
		}
		return p.newWrapErr("joined", errs)
	})
	reg("fmt.Errorf", func(p *Path, _ *frame, a []Value) Value {
		format, _ := p.concreteString(a[0])
		var wraps []Value
		if strings.Contains(format, "%w") {
			if va, ok := a[1].([]Value); ok {
				for _, x := range va {
					if itf, ok := x.(Iface); ok && itf.T != nil && types.Implements(itf.T, p.eng.errorIface) {
						wraps = append(wraps, itf)
					}
				}
			}
		}
		return p.newWrapErr(p.sprintf(format, a[1]).(string), wraps)
	})
	reg("fmt.Sprintf", func(p *Path, _ *frame, a []Value) Value {
		format, _ := p.concreteString(a[0])
		return p.sprintf(format, a[1])
	})
	reg("fmt.Sprint", func(p *Path, _ *frame, a []Value) Value {
		return p.sprintf("%v", a[0])
	})
	reg("fmt.Sprintln", func(p *Path, _ *frame, a []Value) Value {
		return p.sprintf("%v\n", a[0])
	})
	regNoop("fmt.Println", "fmt.Printf", "fmt.Print", "fmt.Fprintf", "fmt.Fprintln", "fmt.Fprint")

	// ---- sync
	// Mutexes: no-ops by default (a goroutine runs until it blocks, so code
	// between scheduling points is atomic anyway). With verif.LockModel(true) a
	// mutex is a one-slot channel: Lock blocks while it is held and every lock
	// operation is a scheduling point (with verif.Preempt), so interleavings
	// between critical sections are explored. Read locks are taken exclusively
	// (readers do not overlap each other; they still interleave with everything else).
	lockOp := func(acquire bool) intrinsic {
		return func(p *Path, _ *frame, a []Value) Value {
			if !p.lockModel {
				return nil
			}
			cell, ok := a[0].(*Value)
			if !ok || cell == nil {
				p.goPanicRuntime("invalid memory address or nil pointer dereference (nil mutex)")
			}
			if p.mutexes == nil {
				p.mutexes = map[*Value]*Chan{}
			}
			ch := p.mutexes[cell]
			if ch == nil {
				ch = p.makeChanOf(types.NewStruct(nil, nil))
				ch.cap = 1
				ch.name = "mutex"
				p.mutexes[cell] = ch
			}
			if acquire {
				p.doCases([]waitCase{{ch: ch, send: true, val: Struct{}}}, true)
				return nil
			}
			if i, _, _ := p.doCases([]waitCase{{ch: ch}}, false); i < 0 {
				p.goPanicRuntime("sync: unlock of unlocked mutex")
			}
			return nil
		}
	}
	for _, n := range []string{"(*sync.Mutex).Lock", "(*sync.RWMutex).Lock", "(*sync.RWMutex).RLock"} {
		reg(n, lockOp(true))
	}
	for _, n := range []string{"(*sync.Mutex).Unlock", "(*sync.RWMutex).Unlock", "(*sync.RWMutex).RUnlock"} {
		reg(n, lockOp(false))
	}
	reg(verifPkg+".Origin", func(p *Path, _ *frame, a []Value) Value {
		v := a[0]
		if itf, ok := v.(Iface); ok {
			v = itf.V
		}
		if po, ok := v.(Poison); ok {
			return po.Why
		}
		return ""
	})
	reg(verifPkg+".LockModel", func(p *Path, _ *frame, a []Value) Value {
		p.lockModel = p.branch(p.boolArg(a[0]))
		return nil
	})
	regNoop("runtime.SetFinalizer", "runtime.KeepAlive",
		"runtime.Gosched", "(*sync.WaitGroup).Add", "(*sync.WaitGroup).Done", "(*sync.WaitGroup).Wait")
	reg("(*sync.Mutex).TryLock", func(p *Path, _ *frame, a []Value) Value { return p.ctx.T })
	reg("(*sync.Once).Do", func(p *Path, caller *frame, a []Value) Value {
		once := a[0].(*Value)
		key := fmt.Sprintf("once:%p", once)
		if _, done := p.objs[key]; done {
			return nil
		}
		p.objs[key] = true
		p.call(caller, a[1], nil)
		return nil
	})
	reg("(*sync.Pool).Get", func(p *Path, caller *frame, a []Value) Value {
		pool := a[0].(*Value)
		if l := p.pools[pool]; len(l) > 0 {
			v := l[len(l)-1]
			p.pools[pool] = l[:len(l)-1]
			return v
		}
		if *pool == nil {
			return Iface{}
		}
		st := (*pool).(Struct)
		// sync.Pool{noCopy, local, localSize, victim, victimSize, New}
		newFn := st[len(st)-1]
		if isNilPtr(newFn) {
			return Iface{}
		}
		return p.call(caller, newFn, nil)
	})
	reg("(*sync.Pool).Put", func(p *Path, _ *frame, a []Value) Value {
		pool := a[0].(*Value)
		if isNilPtr(a[1]) {
			return nil
		}
		p.pools[pool] = append(p.pools[pool], a[1])
		return nil
	})

	// ---- sync/atomic leaf functions (methods of atomic.* types are interpreted)
	for _, w := range []string{"Int32", "Int64", "Uint32", "Uint64", "Uintptr", "Pointer"} {
		w := w
		reg("sync/atomic.Load"+w, func(p *Path, _ *frame, a []Value) Value {
			return p.loadCell(a[0])
		})
		reg("sync/atomic.Store"+w, func(p *Path, _ *frame, a []Value) Value {
			p.store(a[0], a[1])
			return nil
		})
		reg("sync/atomic.Swap"+w, func(p *Path, _ *frame, a []Value) Value {
			old := p.loadCell(a[0])
			p.store(a[0], a[1])
			return old
		})
		if w != "Pointer" {
			reg("sync/atomic.Add"+w, func(p *Path, _ *frame, a []Value) Value {
				old := p.loadCell(a[0]).(*Term)
				n := p.ctx.Add(old, p.asTerm(a[1], "atomic.Add"))
				p.store(a[0], n)
				return n
			})
		}
		reg("sync/atomic.CompareAndSwap"+w, func(p *Path, _ *frame, a []Value) Value {
			old := p.loadCell(a[0])
			var eq *Term
			if ot, ok := old.(*Term); ok {
				eq = p.ctx.Eq(ot, p.asTerm(a[1], "CAS"))
			} else {
				eq = p.ctx.Bool(old == a[1] || (isNilPtr(old) && isNilPtr(a[1])))
			}
			if p.branch(eq) {
				p.store(a[0], a[2])
				return p.ctx.T
			}
			return p.ctx.F
		})
	}
	reg("(*sync/atomic.Value).Load", func(p *Path, _ *frame, a []Value) Value {
		cell := a[0].(*Value)
		key := fmt.Sprintf("atomicvalue:%p", cell)
		if v, ok := p.objs[key]; ok {
			return v.(Value)
		}
		return Iface{}
	})
	reg("(*sync/atomic.Value).Store", func(p *Path, _ *frame, a []Value) Value {
		cell := a[0].(*Value)
		p.objs[fmt.Sprintf("atomicvalue:%p", cell)] = a[1]
		return nil
	})
}

// loadCell reads a cell whose static type is not at hand (atomics): the
// cell must have been initialised.
func (p *Path) loadCell(addr Value) Value {
	a, ok := addr.(*Value)
	if !ok || a == nil {
		p.goPanicRuntime("invalid memory address or nil pointer dereference")
	}
	if *a == nil {
		panic(unsupported{"atomic load of lazily-zero cell"})
	}
	return copyVal(*a)
}

func (p *Path) bytesCompare(a, b []*Term) Value {
	c := p.ctx
	lt := p.bytesLess(a, b)
	eq := p.bytesEq(a, b)
	return c.Ite(eq, c.BV(0, 64), c.Ite(lt, c.BV(^uint64(0), 64), c.BV(1, 64)))
}

func (p *Path) indexByte(s []*Term, b *Term) Value {
	c := p.ctx
	r := c.BV(^uint64(0), 64)
	for i := len(s) - 1; i >= 0; i-- {
		r = c.Ite(c.Eq(s[i], b), c.BV(uint64(i), 64), r)
	}
	return r
}

// ---------------------------------------------------------------- errors

// wrapErr is the engine's fmt.Errorf / errors.Join result.
type wrapErr struct {
	msg   string
	wraps []Value
}

func (p *Path) newWrapErr(msg string, wraps []Value) Value {
	cell := new(Value)
	*cell = Struct{msg}
	p.objs[fmt.Sprintf("wraps:%p", cell)] = wraps
	return Iface{T: p.eng.errorStringPtrT, V: cell}
}

func (p *Path) errUnwrap(e Value) []Value {
	itf, ok := e.(Iface)
	if !ok || itf.T == nil {
		return nil
	}
	if cell, ok := itf.V.(*Value); ok {
		if w, ok := p.objs[fmt.Sprintf("wraps:%p", cell)]; ok {
			return w.([]Value)
		}
	}
	// a regatta/3rd-party type with an Unwrap method
	if f := p.eng.lookupMethod(itf.T, "Unwrap"); f != nil && f.Signature.Params().Len() == 0 {
		r := p.callSSA(nil, f, []Value{itf.V}, nil)
		switch x := r.(type) {
		case Iface:
			if x.T != nil {
				return []Value{x}
			}
		case []Value:
			return x
		}
	}
	return nil
}

func (p *Path) errorsIs(err, target Value, depth int) bool {
	e, ok := err.(Iface)
	if !ok || e.T == nil {
		return isNilPtr(err) && isNilPtr(target)
	}
	t, _ := target.(Iface)
	if depth > 16 {
		return false
	}
	if t.T != nil && types.Identical(e.T, t.T) && types.Comparable(e.T) {
		eq := p.equalVals(e.T, e.V, t.V)
		if p.branch(eq) {
			return true
		}
	}
	if f := p.eng.lookupMethod(e.T, "Is"); f != nil && f.Signature.Params().Len() == 1 && f.Blocks != nil {
		r := p.callSSA(nil, f, []Value{e.V, target}, nil)
		if rt, ok := r.(*Term); ok && p.branch(rt) {
			return true
		}
	}
	for _, w := range p.errUnwrap(err) {
		if p.errorsIs(w, target, depth+1) {
			return true
		}
	}
	return false
}

func (p *Path) errorsAs(err, target Value) Value {
	tp, ok := target.(*Value)
	if !ok || tp == nil {
		panic(unsupported{"errors.As target"})
	}
	tgt := target.(*Value)
	_ = tgt
	panic(unsupported{"errors.As (no static type at hand)"})
}

// sprintf renders with concrete arguments; symbolic arguments print as '?'.
func (p *Path) sprintf(format string, va Value) Value {
	var args []interface{}
	if s, ok := va.([]Value); ok {
		for _, x := range s {
			args = append(args, p.printable(x))
		}
	}
	return fmt.Sprintf(format, args...)
}

func (p *Path) printable(x Value) interface{} {
	if itf, ok := x.(Iface); ok {
		if itf.T == nil {
			return nil
		}
		// error / Stringer: use message if cheaply available
		if cell, ok := itf.V.(*Value); ok && types.Identical(itf.T, p.eng.errorStringPtrT) && cell != nil {
			if st, ok := (*cell).(Struct); ok {
				if s, ok := st[0].(string); ok {
					return fmt.Errorf("%s", s)
				}
			}
		}
		b, isBasic := itf.T.Underlying().(*types.Basic)
		switch v := itf.V.(type) {
		case *Term:
			if v.IsConst() {
				if v.W == 0 {
					return v.K == 1
				}
				if isBasic && b.Info()&types.IsUnsigned != 0 {
					return v.K
				}
				return sext64(v.K, v.W)
			}
			return "?"
		case string:
			return v
		case SymStr:
			return "?"
		case []Value:
			if bs, ok := p.tryConcreteBytes(v); ok {
				return bs
			}
			return "?"
		}
		return "<" + itf.T.String() + ">"
	}
	return "?"
}

func (p *Path) tryConcreteBytes(v []Value) (b []byte, ok bool) {
	b = make([]byte, len(v))
	for i, e := range v {
		if e == nil {
			continue
		}
		t, isT := e.(*Term)
		if !isT || !t.IsConst() || t.W != 8 {
			return nil, false
		}
		b[i] = byte(t.K)
	}
	return b, true
}

func intrinsicNames() []string {
	var r []string
	for k := range intrinsics {
		r = append(r, k)
	}
	sort.Strings(r)
	return r
}

var _ = ssa.Function{}

func init() {
	// math/bits: table-driven in the stdlib; encoded as ite-chains instead
	lenN := func(w uint8) intrinsic {
		return func(p *Path, _ *frame, a []Value) Value {
			x := p.asTerm(a[0], "bits.Len")
			c := p.ctx
			lo, hi := urangeB(x, 0, p.lookBounds)
			// the result is at least the bit length of the lower bound
			start := uint8(bits.Len64(lo))
			r := c.BV(uint64(start), 64)
			for i := start; i < w && i < x.W && (hi>>i) != 0; i++ {
				bit := c.Eq(c.Extract(x, i, 1), c.BV(1, 1))
				r = c.Ite(bit, c.BV(uint64(i)+1, 64), r)
			}
			return r
		}
	}
	// vtprotobuf's varint size, (bits.Len64(x|1)+6)/7, summarised as a case split
	// on the seven-bit class of x: each path has a concrete wire layout and
	// learns the bounds of x, which decide EncodeVarint's loop without the solver.
	reg("github.com/planetscale/vtprotobuf/protohelpers.SizeOfVarint", func(p *Path, _ *frame, a []Value) Value {
		x := p.asTerm(a[0], "SizeOfVarint")
		for k := uint(1); k < 10; k++ {
			if p.branch(p.ctx.Ult(x, p.ctx.BV(1<<(7*k), 64))) {
				return p.ctx.BV(uint64(k), 64)
			}
		}
		return p.ctx.BV(10, 64)
	})
	reg("math/bits.Len64", lenN(64))
	reg("math/bits.Len32", lenN(32))
	reg("math/bits.Len16", lenN(16))
	reg("math/bits.Len8", lenN(8))
	reg("math/bits.Len", lenN(64))
	reg("math/bits.LeadingZeros64", func(p *Path, f *frame, a []Value) Value {
		return p.ctx.Sub(p.ctx.BV(64, 64), lenN(64)(p, f, a).(*Term))
	})
	reg("math/bits.TrailingZeros64", func(p *Path, _ *frame, a []Value) Value {
		x := p.asTerm(a[0], "bits.TrailingZeros64")
		c := p.ctx
		r := c.BV(64, 64)
		for i := 63; i >= 0; i-- {
			bit := c.Eq(c.Extract(x, uint8(i), 1), c.BV(1, 1))
			r = c.Ite(bit, c.BV(uint64(i), 64), r)
		}
		return r
	})
}

// verif.DeepEqual: structural equality of two values (reflect.DeepEqual
// natively): pointers are followed, nil and empty slices differ.
func (p *Path) deepEqual(t types.Type, a, b Value, depth int) *Term {
	c := p.ctx
	if depth > 32 {
		panic(unsupported{"DeepEqual: structure too deep"})
	}
	switch u := t.Underlying().(type) {
	case *types.Basic:
		return p.equalVals(t, a, b)
	case *types.Pointer:
		an, bn := isNilPtr(a), isNilPtr(b)
		if an || bn {
			return c.Bool(an && bn)
		}
		pa, ok1 := a.(*Value)
		pb, ok2 := b.(*Value)
		if !ok1 || !ok2 {
			return c.Bool(a == b)
		}
		if pa == pb {
			return c.T
		}
		return p.deepEqual(u.Elem(), p.load(u.Elem(), pa), p.load(u.Elem(), pb), depth+1)
	case *types.Struct:
		sa, sb := a.(Struct), b.(Struct)
		r := c.T
		for i := 0; i < u.NumFields(); i++ {
			r = c.And(r, p.deepEqual(u.Field(i).Type(), sa[i], sb[i], depth+1))
		}
		return r
	case *types.Slice:
		sa, ok1 := a.([]Value)
		sb, ok2 := b.([]Value)
		if !ok1 || !ok2 {
			panic(unsupported{"DeepEqual over blobs"})
		}
		if (sa == nil) != (sb == nil) || len(sa) != len(sb) {
			return c.F
		}
		r := c.T
		for i := range sa {
			x, y := sa[i], sb[i]
			if x == nil {
				x = p.zero(u.Elem())
			}
			if y == nil {
				y = p.zero(u.Elem())
			}
			r = c.And(r, p.deepEqual(u.Elem(), x, y, depth+1))
		}
		return r
	case *types.Array:
		sa, sb := a.(Array), b.(Array)
		r := c.T
		for i := range sa {
			x, y := sa[i], sb[i]
			if x == nil {
				x = p.zero(u.Elem())
			}
			if y == nil {
				y = p.zero(u.Elem())
			}
			r = c.And(r, p.deepEqual(u.Elem(), x, y, depth+1))
		}
		return r
	case *types.Interface:
		ia, ib := a.(Iface), b.(Iface)
		if ia.T == nil || ib.T == nil {
			return c.Bool(ia.T == nil && ib.T == nil)
		}
		if !types.Identical(ia.T, ib.T) {
			return c.F
		}
		return p.deepEqual(ia.T, ia.V, ib.V, depth+1)
	case *types.Map:
		ma, mb := a.(*Map), b.(*Map)
		if ma == nil || mb == nil {
			return c.Bool(ma == nil && mb == nil)
		}
		if len(ma.K) == 0 && len(mb.K) == 0 {
			return c.T
		}
		panic(unsupported{"DeepEqual over non-empty maps"})
	case *types.Signature, *types.Chan:
		return c.Bool(isNilPtr(a) && isNilPtr(b))
	}
	panic(unsupported{"DeepEqual over " + t.String()})
}

func init() {
	reg(verifPkg+".DeepEqual", func(p *Path, _ *frame, a []Value) Value {
		x, y := a[0].(Iface), a[1].(Iface)
		if x.T == nil || y.T == nil {
			return p.ctx.Bool(x.T == nil && y.T == nil)
		}
		if !types.Identical(x.T, y.T) {
			return p.ctx.F
		}
		return p.deepEqual(x.T, x.V, y.V, 0)
	})
}
