package main

import (
	"crypto/sha256"
	"encoding/hex"
	"encoding/json"
	"flag"
	"fmt"
	"os"
	"os/exec"
	"path/filepath"
	"runtime"
	"runtime/debug"
	"runtime/pprof"
	"sort"
	"strconv"
	"strings"
	"sync"
	"time"

	"golang.org/x/tools/go/ssa"
)

func usage() {
	fmt.Fprintln(os.Stderr, `usage: symgo check <property> [--tier quick|thorough] [--seed N] [--only harness] [--workers N]
       symgo replay <file>
       symgo list`)
	os.Exit(2)
}

func main() {
	if len(os.Args) < 2 {
		usage()
	}
	switch os.Args[1] {
	case "check":
		os.Exit(cmdCheck(os.Args[2:]))
	case "replay":
		os.Exit(cmdReplay(os.Args[2:]))
	case "path":
		os.Exit(cmdPath(os.Args[2:]))
	case "warm":
		t0 := time.Now()
		if _, err := NewEngine(verifDir(), []string{"./..."}); err != nil {
			fmt.Fprintln(os.Stderr, "load failed:", err)
			os.Exit(1)
		}
		fmt.Printf("symgo: packages loaded and SSA built in %.1fs\n", time.Since(t0).Seconds())
	case "list":
		for _, id := range propIDs() {
			fmt.Println(id, "-", props[id].Title)
		}
	default:
		usage()
	}
}

func verifDir() string {
	if d := os.Getenv("VERIF_DIR"); d != "" {
		return d
	}
	return "/verif"
}

type KnownFinding struct {
	Property  string `json:"property"`
	Harness   string `json:"harness"`
	Assertion string `json:"assertion"`
	What      string `json:"what"`
}

type KnownFindings struct {
	Findings []KnownFinding `json:"findings"`
	Fixed    []string       `json:"fixed"`
}

func loadKnown(dir string) KnownFindings {
	var k KnownFindings
	b, err := os.ReadFile(filepath.Join(dir, "known_findings.json"))
	if err == nil {
		_ = json.Unmarshal(b, &k)
	}
	return k
}

func cmdCheck(argv []string) int {
	if len(argv) < 1 {
		usage()
	}
	id := argv[0]
	fs := flag.NewFlagSet("check", flag.ExitOnError)
	tier := fs.String("tier", "quick", "quick|thorough")
	seed := fs.Int("seed", 0, "seed (recorded; exploration is exhaustive and deterministic)")
	only := fs.String("only", "", "run only harnesses whose name contains this")
	workers := fs.Int("workers", runtime.NumCPU(), "parallel workers")
	verbose := fs.Bool("v", false, "verbose")
	noReplay := fs.Bool("no-replay", false, "do not replay counterexamples natively")
	solver := fs.String("solver", "z3-new", "z3-new|z3|cvc5")
	cpuprof := fs.String("cpuprofile", "", "write a CPU profile")
	witness := fs.Int("witness", -1, "passing paths per instance to replay natively (translation self-check); default 0 quick, 2 thorough")
	fs.Parse(argv[1:])
	if s := os.Getenv("VERIF_SEED"); s != "" {
		if n, err := strconv.Atoi(s); err == nil {
			*seed = n
		}
	}
	if t := os.Getenv("VERIF_TIER"); t == "quick" || t == "thorough" {
		if !flagSet(fs, "tier") {
			*tier = t
		}
	}
	if *cpuprof != "" {
		pf, err := os.Create(*cpuprof)
		if err == nil {
			pprof.StartCPUProfile(pf)
			defer pprof.StopCPUProfile()
		}
	}
	prop, ok := props[id]
	if !ok {
		fmt.Fprintln(os.Stderr, "unknown property", id)
		return 2
	}
	start := time.Now()
	debug.SetGCPercent(400)
	vd := verifDir()
	eng, err := NewEngine(vd, []string{"./..."})
	if err != nil {
		fmt.Fprintln(os.Stderr, "engine load failed:", err)
		writeEvidenceFailure(vd, id, *tier, *seed, "engine load failed: "+err.Error(), start)
		return 2
	}
	eng.workers = *workers
	eng.verbose = *verbose
	eng.timeoutMs = 60000
	if *tier == "thorough" {
		eng.timeoutMs = 300000
	}
	switch *solver {
	case "z3":
		eng.solverKind = SolverZ3Old
	case "cvc5":
		eng.solverKind = SolverCVC5
	}
	insts := prop.Instances(*tier)
	if *only != "" {
		var f []*Instance
		for _, in := range insts {
			if strings.Contains(in.Name(), *only) {
				f = append(f, in)
			}
		}
		insts = f
	}
	nw := *witness
	if nw < 0 {
		nw = 0
		if *tier == "thorough" {
			nw = 2
		}
	}
	if *noReplay {
		nw = 0
	}
	for _, in := range insts {
		in.Prop = id
		if !in.EngineOnly && !in.NoWitness && in.Expect == "" {
			in.witnessLeft = int32(nw)
		}
	}
	fmt.Printf("symgo: property %s tier %s: %d harness instances, %d workers, load %.1fs\n", id, *tier, len(insts), eng.workers, eng.loadTime.Seconds())
	results, stats := eng.RunInstances(insts)

	known := loadKnown(vd)
	exit := 0
	var violLines, knownLines, inconcl []string
	nViol := 0
	replayed, reproduced := 0, 0
	type vkey struct{ h, l string }
	for _, ir := range results {
		in := ir.Inst
		fmt.Printf("  %-40s paths=%d completed=%d assumed-away=%d asserts=%d (trivial %d, solver %d) violations=%d covers=%v %.1fs\n",
			in.Name(), ir.Paths, ir.Completed, ir.AssumedAway, ir.Asserts, ir.Trivial, ir.Discharged, len(ir.Violations), sortedKeys(ir.Covers), ir.Wall.Seconds())
		for _, s := range ir.Inconclusive {
			inconcl = append(inconcl, in.Name()+": "+s)
		}
		if in.Expect == "violated" {
			if len(ir.Violations) == 0 {
				inconcl = append(inconcl, in.Name()+": vacuity twin was NOT violated (harness unreachable or assumptions unsatisfiable)")
			}
			continue
		}
		// an instance all of whose violations are listed known findings ends its
		// paths at the failing assertion: the reachability guards do not apply to it
		allKnown := len(ir.Violations) > 0
		for _, v := range ir.Violations {
			k := false
			for _, kf := range known.Findings {
				if kf.Property == id && kf.Harness == in.Func && kf.Assertion == v.Label {
					k = true
				}
			}
			if !k {
				allKnown = false
			}
		}
		want := prop.Covers[in.Func]
		for _, c := range want {
			if !ir.Covers[c] && !allKnown {
				inconcl = append(inconcl, fmt.Sprintf("%s: cover tag %q not reached (vacuity guard)", in.Name(), c))
			}
		}
		if ir.Completed == 0 && !allKnown {
			inconcl = append(inconcl, in.Name()+": no path ran to completion")
		}
		seen := map[vkey]int{}
		for _, v := range ir.Violations {
			k := vkey{in.Func, v.Label}
			seen[k]++
			if seen[k] > 1 {
				continue
			}
			file := writeReplayFile(vd, id, in, v, seen)
			isKnown := false
			for _, kf := range known.Findings {
				if kf.Property == id && kf.Harness == in.Func && kf.Assertion == v.Label {
					isKnown = true
					knownLines = append(knownLines, fmt.Sprintf("KNOWN-FINDING: property=%s %s [%s: %s] replay=%s", id, kf.What, in.Func, v.Label, file))
				}
			}
			outcome := "not-replayed"
			if !*noReplay && !in.EngineOnly {
				replayed++
				outcome = runReplay(vd, file, v.Label)
				if outcome == "reproduced" {
					reproduced++
				}
			}
			if isKnown {
				if outcome != "reproduced" && outcome != "not-replayed" {
					inconcl = append(inconcl, fmt.Sprintf("%s: known finding %q did not reproduce natively (%s)", in.Name(), v.Label, outcome))
				}
				continue
			}
			switch outcome {
			case "reproduced", "not-replayed":
				nViol++
				violLines = append(violLines, fmt.Sprintf("VIOLATION property=%s replay=%s", id, file))
				fmt.Printf("    violated: %q in %s (%s)\n", v.Label, in.Name(), outcome)
			default:
				inconcl = append(inconcl, fmt.Sprintf("SPURIOUS %s: solver model for %q does not reproduce natively (%s); encoding or model wrong; replay=%s", in.Name(), v.Label, outcome, file))
			}
		}
	}
	// translation self-check: passing paths replayed natively must pass, with the same cover tags
	wRun, wOK := 0, 0
	{
		byPkg := map[string][]*witnessJob{}
		var pkgs []string
		for _, ir := range results {
			for i, w := range ir.Witnesses {
				j := &witnessJob{in: ir.Inst, w: w, file: writeWitnessFile(vd, id, ir.Inst, w, i)}
				if len(byPkg[ir.Inst.Pkg]) == 0 {
					pkgs = append(pkgs, ir.Inst.Pkg)
				}
				byPkg[ir.Inst.Pkg] = append(byPkg[ir.Inst.Pkg], j)
			}
		}
		var wg sync.WaitGroup
		sem := make(chan struct{}, 4)
		for _, pk := range pkgs {
			wg.Add(1)
			go func(pk string) {
				defer wg.Done()
				sem <- struct{}{}
				defer func() { <-sem }()
				runWitnessBatch(vd, pk, byPkg[pk])
			}(pk)
		}
		wg.Wait()
		for _, pk := range pkgs {
			for _, j := range byPkg[pk] {
				wRun++
				want := strings.Join(j.w.Covers, ",")
				if j.outcome == "ok" && j.covers == want {
					wOK++
					os.Remove(j.file)
					continue
				}
				out := j.outcome
				if out == "ok" {
					out = fmt.Sprintf("passes natively but reaches covers [%s], the engine path [%s]", j.covers, want)
				}
				inconcl = append(inconcl, fmt.Sprintf("TRANSLATION-MISMATCH %s: a path the engine completes does not run the same way natively (%s); replay=%s", j.in.Name(), out, j.file))
			}
		}
	}
	if wRun > 0 {
		fmt.Printf("  translation self-check: %d passing paths replayed natively, %d agree\n", wRun, wOK)
	}
	for _, l := range knownLines {
		fmt.Println(l)
	}
	for _, l := range violLines {
		fmt.Println(l)
	}
	{
		cnt := map[string]int{}
		var order []string
		for _, l := range inconcl {
			if cnt[l] == 0 {
				order = append(order, l)
			}
			cnt[l]++
		}
		for i, l := range order {
			if i >= 25 {
				fmt.Printf("INCONCLUSIVE: … %d more distinct reasons\n", len(order)-i)
				break
			}
			if cnt[l] > 1 {
				fmt.Printf("INCONCLUSIVE: (x%d) %s\n", cnt[l], l)
			} else {
				fmt.Println("INCONCLUSIVE:", l)
			}
		}
	}
	if len(inconcl) > 0 {
		exit = 2
	}
	if nViol > 0 {
		exit = 1
	}
	writeEvidence(vd, id, prop, *tier, *seed, eng, results, stats, nViol, len(knownLines), inconcl, replayed, reproduced, start)
	if *verbose {
		initSteps.Range(func(k, v interface{}) bool {
			fmt.Printf("  init steps %-50s %d\n", k, *v.(*int64))
			return true
		})
		queryStats.Range(func(k, v interface{}) bool {
			a := v.(*[3]int64)
			fmt.Printf("  queries %-20s unsat=%d sat=%d unknown=%d\n", k, a[0], a[1], a[2])
			return true
		})
	}
	dumpSiteStats()
	fmt.Printf("symgo: %s %s: exit %d; %d queries (%d sat, %d unsat, %d unknown), solver %.1fs, wall %.1fs\n",
		id, *tier, exit, stats.Queries, stats.Sat, stats.Unsat, stats.Unknown, stats.SolveTime.Seconds(), time.Since(start).Seconds())
	return exit
}

func flagSet(fs *flag.FlagSet, name string) bool {
	found := false
	fs.Visit(func(f *flag.Flag) {
		if f.Name == name {
			found = true
		}
	})
	return found
}

// ---------------------------------------------------------------- replay files

type replayFile struct {
	Property  string      `json:"property"`
	Harness   string      `json:"harness"`
	Pkg       string      `json:"pkg"`
	Args      []int64     `json:"args"`
	Assertion string      `json:"assertion"`
	Decisions string      `json:"decisions"`
	Notes     []string    `json:"notes,omitempty"`
	Values    []SymRecord `json:"values"`
}

func writeReplayFile(vd, id string, in *Instance, v *Violation, _ interface{}) string {
	dir := filepath.Join(vd, "replays", id)
	os.MkdirAll(dir, 0o755)
	h := sha256.Sum256([]byte(in.Name() + "|" + v.Label))
	file := filepath.Join(dir, fmt.Sprintf("%s_%s.json", in.Func, hex.EncodeToString(h[:4])))
	rf := replayFile{Property: id, Harness: in.Func, Pkg: in.Pkg, Args: in.Args, Assertion: v.Label,
		Decisions: decisionsString(v.Decisions), Notes: v.Notes, Values: v.Syms}
	if rf.Values == nil {
		rf.Values = []SymRecord{}
	}
	if rf.Args == nil {
		rf.Args = []int64{}
	}
	b, _ := json.MarshalIndent(rf, "", " ")
	os.WriteFile(file, b, 0o644)
	return file
}

type witnessJob struct {
	in      *Instance
	w       *WitnessPath
	file    string
	outcome string // "ok", "violation", "panic: …", "not-run"
	covers  string
}

// runWitnessBatch replays all witnesses of one package in a single native test binary.
func runWitnessBatch(vd, pkg string, jobs []*witnessJob) {
	for _, j := range jobs {
		j.outcome = "not-run"
	}
	tmp, err := os.MkdirTemp("", "symgo-witness-")
	if err != nil {
		return
	}
	defer os.RemoveAll(tmp)
	ov := map[string]string{}
	root := filepath.Join(vd, "harness")
	filepath.Walk(root, func(path string, info os.FileInfo, err error) error {
		if err == nil && !info.IsDir() && strings.HasSuffix(path, ".go") {
			rel, _ := filepath.Rel(root, path)
			ov[filepath.Join(repoDir, rel)] = path
		}
		return nil
	})
	pkgName, err := goPackageName(filepath.Join(repoDir, pkg))
	if err != nil {
		return
	}
	var body strings.Builder
	for i, j := range jobs {
		var args []string
		for _, a := range j.in.Args {
			args = append(args, fmt.Sprint(a))
		}
		fmt.Fprintf(&body, "\t{%d, %q, func() { %s(%s) }},\n", i, j.file, j.in.Func, strings.Join(args, ", "))
	}
	test := fmt.Sprintf(`//go:build verif

package %s

import (
	"fmt"
	"os"
	"testing"

	"github.com/jamf/regatta/internal/verif"
)

func TestVWitness(t *testing.T) {
	jobs := []struct {
		i    int
		file string
		run  func()
	}{
%s	}
	for _, j := range jobs {
		if os.Getenv("VWITNESS_JOB") != fmt.Sprint(j.i) {
			continue
		}
		fmt.Println("VWITNESS-BEGIN", j.i)
		if _, err := verif.Load(j.file); err != nil {
			fmt.Println("VREPLAY-END load-error", err)
			continue
		}
		verif.Run(j.run)
	}
}
`, pkgName, body.String())
	testFile := filepath.Join(tmp, "zz_vwitness_test.go")
	os.WriteFile(testFile, []byte(test), 0o644)
	ov[filepath.Join(repoDir, pkg, "zz_vwitness_test.go")] = testFile
	ovb, _ := json.Marshal(map[string]interface{}{"Replace": ov})
	ovFile := filepath.Join(tmp, "overlay.json")
	os.WriteFile(ovFile, ovb, 0o644)
	// one test binary per package, one process per witness (a harness may leave
	// background work behind, e.g. a database on a "crashed" file system)
	bin := filepath.Join(tmp, "witness.test")
	build := exec.Command("timeout", "1200", "go", "test", "-c", "-o", bin, "-vet=off", "-tags", "verif", "-overlay", ovFile, "./"+pkg)
	build.Dir = repoDir
	build.Env = append(os.Environ(), "GOFLAGS=-mod=mod", "GOPROXY=off", "GOSUMDB=off", "GOTOOLCHAIN=local")
	if out, err := build.CombinedOutput(); err != nil {
		for _, j := range jobs {
			j.outcome = "native build failed"
		}
		if len(jobs) > 0 {
			os.WriteFile(strings.TrimSuffix(jobs[0].file, ".json")+".replay.log", out, 0o644)
		}
		return
	}
	var wg sync.WaitGroup
	sem := make(chan struct{}, 4)
	for i, j := range jobs {
		wg.Add(1)
		go func(i int, j *witnessJob) {
			defer wg.Done()
			sem <- struct{}{}
			defer func() { <-sem }()
			cmd := exec.Command("timeout", "600", bin, "-test.run", "^TestVWitness$", "-test.v", "-test.count=1")
			cmd.Dir = filepath.Join(repoDir, pkg)
			cmd.Env = append(os.Environ(), fmt.Sprintf("VWITNESS_JOB=%d", i))
			out, _ := cmd.CombinedOutput()
			for _, l := range strings.Split(string(out), "\n") {
				l = strings.TrimSpace(l)
				switch {
				case strings.HasPrefix(l, "VREPLAY-COVERS"):
					j.covers = strings.TrimSpace(strings.TrimPrefix(l, "VREPLAY-COVERS"))
				case strings.HasPrefix(l, "VREPLAY-END "):
					j.outcome = strings.TrimSpace(strings.TrimPrefix(l, "VREPLAY-END "))
				}
			}
			if j.outcome != "ok" {
				os.WriteFile(strings.TrimSuffix(j.file, ".json")+".replay.log", filterNoise(out), 0o644)
			}
		}(i, j)
	}
	wg.Wait()
}

func writeWitnessFile(vd, id string, in *Instance, w *WitnessPath, i int) string {
	dir := filepath.Join(vd, "replays", id)
	os.MkdirAll(dir, 0o755)
	h := sha256.Sum256([]byte(in.Name()))
	file := filepath.Join(dir, fmt.Sprintf("witness_%s_%s_%d.json", in.Func, hex.EncodeToString(h[:4]), i))
	rf := replayFile{Property: id, Harness: in.Func, Pkg: in.Pkg, Args: in.Args, Assertion: "",
		Decisions: decisionsString(w.Decisions), Values: w.Syms}
	if rf.Values == nil {
		rf.Values = []SymRecord{}
	}
	if rf.Args == nil {
		rf.Args = []int64{}
	}
	b, _ := json.MarshalIndent(rf, "", " ")
	os.WriteFile(file, b, 0o644)
	return file
}

// runReplay runs the harness natively (real code, real libraries) with the
// values of the counterexample and reports whether the same assertion fails.
func runReplay(vd, file, label string) string {
	b, err := os.ReadFile(file)
	if err != nil {
		return "replay-error: " + err.Error()
	}
	var rf replayFile
	if err := json.Unmarshal(b, &rf); err != nil {
		return "replay-error: " + err.Error()
	}
	tmp, err := os.MkdirTemp("", "symgo-replay-")
	if err != nil {
		return "replay-error: " + err.Error()
	}
	defer os.RemoveAll(tmp)
	ov := map[string]string{}
	root := filepath.Join(vd, "harness")
	filepath.Walk(root, func(path string, info os.FileInfo, err error) error {
		if err == nil && !info.IsDir() && strings.HasSuffix(path, ".go") {
			rel, _ := filepath.Rel(root, path)
			ov[filepath.Join(repoDir, rel)] = path
		}
		return nil
	})
	// generated test entry in the harness package
	pkgName, err := goPackageName(filepath.Join(repoDir, rf.Pkg))
	if err != nil {
		return "replay-error: " + err.Error()
	}
	var args []string
	for _, a := range rf.Args {
		args = append(args, fmt.Sprint(a))
	}
	test := fmt.Sprintf(`//go:build verif

package %s

import (
	"os"
	"testing"

	"github.com/jamf/regatta/internal/verif"
)

func TestVReplay(t *testing.T) {
	if _, err := verif.Load(os.Getenv("VERIF_REPLAY")); err != nil {
		t.Fatal(err)
	}
	out := verif.Run(func() { %s(%s) })
	if out != "ok" {
		t.Fatalf("replay outcome: %%s", out)
	}
}
`, pkgName, rf.Harness, strings.Join(args, ", "))
	testFile := filepath.Join(tmp, "zz_vreplay_test.go")
	os.WriteFile(testFile, []byte(test), 0o644)
	ov[filepath.Join(repoDir, rf.Pkg, "zz_vreplay_test.go")] = testFile
	ovb, _ := json.Marshal(map[string]interface{}{"Replace": ov})
	ovFile := filepath.Join(tmp, "overlay.json")
	os.WriteFile(ovFile, ovb, 0o644)
	cmd := exec.Command("timeout", "900", "go", "test", "-vet=off", "-count=1", "-tags", "verif", "-overlay", ovFile, "-run", "^TestVReplay$", "-v", "./"+rf.Pkg)
	cmd.Dir = repoDir
	cmd.Env = append(os.Environ(), "GOFLAGS=-mod=mod", "GOPROXY=off", "GOSUMDB=off", "GOTOOLCHAIN=local", "VERIF_REPLAY="+file)
	out, _ := cmd.CombinedOutput()
	s := string(out)
	logf := strings.TrimSuffix(file, ".json") + ".replay.log"
	os.WriteFile(logf, filterNoise(out), 0o644)
	switch {
	case strings.Contains(s, fmt.Sprintf("VREPLAY-VIOLATION label=%q", label)):
		return "reproduced"
	case strings.Contains(s, "VREPLAY-END ok"):
		if label == "" {
			cov := ""
			if i := strings.Index(s, "VREPLAY-COVERS "); i >= 0 {
				j := strings.IndexByte(s[i:], '\n')
				if j < 0 {
					j = len(s) - i
				}
				cov = strings.TrimSpace(s[i+15 : i+j])
			}
			return "passes-natively covers=" + cov
		}
		return "passes-natively"
	case strings.Contains(s, "VREPLAY-END violation"):
		return "different-assertion-failed-natively"
	case strings.Contains(s, "VREPLAY-END"):
		i := strings.Index(s, "VREPLAY-END")
		j := strings.IndexByte(s[i:], '\n')
		if j < 0 {
			j = len(s) - i
		}
		return "native-run: " + strings.TrimSpace(s[i+11:i+j])
	}
	return "replay-error: see " + logf
}

func filterNoise(b []byte) []byte {
	var out []string
	for _, l := range strings.Split(string(b), "\n") {
		if strings.HasPrefix(l, `{"level"`) {
			continue
		}
		out = append(out, l)
	}
	return []byte(strings.Join(out, "\n"))
}

func goPackageName(dir string) (string, error) {
	ents, err := os.ReadDir(dir)
	if err != nil {
		return "", err
	}
	for _, e := range ents {
		if strings.HasSuffix(e.Name(), ".go") && !strings.HasSuffix(e.Name(), "_test.go") {
			b, err := os.ReadFile(filepath.Join(dir, e.Name()))
			if err != nil {
				continue
			}
			for _, l := range strings.Split(string(b), "\n") {
				l = strings.TrimSpace(l)
				if strings.HasPrefix(l, "package ") {
					return strings.Fields(l)[1], nil
				}
			}
		}
	}
	return "", fmt.Errorf("no package clause found in %s", dir)
}

func cmdReplay(argv []string) int {
	if len(argv) < 1 {
		usage()
	}
	b, err := os.ReadFile(argv[0])
	if err != nil {
		fmt.Fprintln(os.Stderr, err)
		return 2
	}
	var rf replayFile
	json.Unmarshal(b, &rf)
	out := runReplay(verifDir(), argv[0], rf.Assertion)
	fmt.Println("replay:", out)
	if out == "reproduced" {
		fmt.Printf("VIOLATION property=%s replay=%s\n", rf.Property, argv[0])
		return 1
	}
	if out == "passes-natively" {
		return 0
	}
	return 2
}

// ---------------------------------------------------------------- evidence

func funcList(e *Engine, results []*InstanceResult) []string {
	set := map[*ssa.Function]bool{}
	for _, ir := range results {
		for f := range ir.Funcs {
			set[f] = true
		}
	}
	var out []string
	for f := range set {
		pk := f.Package()
		if pk == nil && f.Origin() != nil {
			pk = f.Origin().Package()
		}
		for g := f; pk == nil && g.Parent() != nil; g = g.Parent() {
			pk = g.Parent().Package()
		}
		if pk == nil || !strings.HasPrefix(pk.Pkg.Path(), regattaMod) {
			continue
		}
		if strings.HasSuffix(pk.Pkg.Path(), "/internal/verif") {
			continue
		}
		pos := e.prog.Fset.Position(f.Pos())
		if strings.Contains(pos.Filename, "zz_vh_") {
			continue
		}
		out = append(out, fmt.Sprintf("%s (%s:%d)", f.String(), strings.TrimPrefix(pos.Filename, "/repo/"), pos.Line))
	}
	sort.Strings(out)
	return out
}

func writeEvidenceFailure(vd, id, tier string, seed int, why string, start time.Time) {
	ev := map[string]interface{}{
		"property_id": id, "tier": tier, "seed": seed, "level": "model_checking",
		"coverage": map[string]interface{}{"evaluations": 0, "distinct_nontrivial": 0, "explanation": why},
		"wall_s":   time.Since(start).Seconds(), "violations": 0,
	}
	b, _ := json.MarshalIndent(ev, "", " ")
	os.MkdirAll(filepath.Join(vd, "evidence"), 0o755)
	os.WriteFile(filepath.Join(vd, "evidence", id+".json"), b, 0o644)
}

func writeEvidence(vd, id string, prop *Property, tier string, seed int, e *Engine, results []*InstanceResult, st RunStats,
	nViol, nKnown int, inconcl []string, replayed, reproduced int, start time.Time) {
	paths, completed, asserts, trivial, discharged, decisions := 0, 0, 0, 0, 0, 0
	var steps int64
	var samples []interface{}
	var instSumm []map[string]interface{}
	nontrivial := 0
	for _, ir := range results {
		paths += ir.Paths
		completed += ir.Completed
		asserts += ir.Asserts
		trivial += ir.Trivial
		discharged += ir.Discharged
		decisions += ir.Decisions
		steps += ir.Steps
		if ir.Inst.Expect != "violated" {
			// a path is non-trivial if it ran to completion and reached at least one assertion
			nontrivial += ir.Completed
		}
		for _, s := range ir.Samples {
			if len(samples) < 8 {
				samples = append(samples, s)
			}
		}
		instSumm = append(instSumm, map[string]interface{}{
			"harness": ir.Inst.Name(), "paths": ir.Paths, "completed": ir.Completed, "assumed_away": ir.AssumedAway,
			"assertions_reached": ir.Asserts, "discharged_by_simplifier": ir.Trivial, "discharged_by_solver": ir.Discharged,
			"violations": len(ir.Violations), "covers": sortedKeys(ir.Covers), "expect": ir.Inst.Expect, "unwind": ir.Inst.Unwind,
			"wall_s": ir.Wall.Seconds(),
		})
	}
	if len(samples) == 0 {
		samples = append(samples, map[string]interface{}{"note": "no completed path"})
	}
	cov := map[string]interface{}{
		"states":                        paths,
		"transitions":                   decisions + paths,
		"traces_validated_against_impl": reproduced,
		"samples":                       samples,
		"evaluations":                   paths,
		"distinct_nontrivial":           nontrivial,
		"rule": "one evaluation = one feasible symbolic path of a harness instance through the real SSA (distinct decision vectors, so distinct by construction); " +
			"non-trivial = ran to completion (not assumed away) in a non-vacuity harness; each path stands for all concrete inputs satisfying its path condition",
		"exhaustive":                          len(inconcl) == 0,
		"functions_encoded":                   funcList(e, results),
		"harness_instances":                   instSumm,
		"assertions_reached":                  asserts,
		"assertions_discharged":               trivial + discharged,
		"solver_queries":                      st.Queries,
		"solver_sat":                          st.Sat,
		"solver_unsat":                        st.Unsat,
		"solver_unknown":                      st.Unknown,
		"solver_time_s":                       st.SolveTime.Seconds(),
		"solver":                              e.solverKind.String(),
		"ssa_instructions_executed":           steps,
		"bounds":                              prop.Bounds[tier],
		"outside_the_bounds":                  prop.Outside,
		"known_findings_reported":             nKnown,
		"counterexamples_replayed":            replayed,
		"counterexamples_reproduced_natively": reproduced,
		"inconclusive":                        inconcl,
		"encoding_regenerated_from":           "/repo working tree (go/packages + go/ssa on every run)",
		"repo_harness_files":                  e.harnessFiles,
	}
	ev := map[string]interface{}{
		"property_id": id, "tier": tier, "seed": seed, "level": "model_checking",
		"coverage":    cov,
		"assumptions": nonNil(prop.Assumptions),
		"wall_s":      time.Since(start).Seconds(),
		"violations":  nViol,
	}
	b, _ := json.MarshalIndent(ev, "", " ")
	os.MkdirAll(filepath.Join(vd, "evidence"), 0o755)
	os.WriteFile(filepath.Join(vd, "evidence", id+".json"), b, 0o644)
}

// cmdPath: debugging aid — run one path of one instance under a decision
// prefix given as "kind:pick/n kind:pick/n ..." and dump what happened.
func cmdPath(argv []string) int {
	if len(argv) < 3 {
		fmt.Fprintln(os.Stderr, "usage: symgo path <property> <instance name> <decisions>")
		return 2
	}
	prop, ok := props[argv[0]]
	if !ok {
		return 2
	}
	var prefix []Decision
	for _, f := range strings.Fields(argv[2]) {
		var d Decision
		parts := strings.Split(f, ":")
		d.Kind = parts[0]
		if i := strings.Index(parts[1], "="); i >= 0 {
			fmt.Sscanf(parts[1][i+1:], "%d", &d.Val)
			parts[1] = parts[1][:i]
		}
		fmt.Sscanf(parts[1], "%d/%d", &d.Pick, &d.N)
		prefix = append(prefix, d)
	}
	eng, err := NewEngine(verifDir(), []string{"./..."})
	if err != nil {
		fmt.Fprintln(os.Stderr, err)
		return 2
	}
	eng.timeoutMs = 60000
	for _, tier := range []string{"quick", "thorough"} {
		for _, in := range prop.Instances(tier) {
			if in.Name() != argv[1] {
				continue
			}
			sol, _ := NewSolver(eng.solverKind, eng.timeoutMs)
			debugPath = true
			res := eng.runPath(sol, in, prefix)
			fmt.Printf("ended=%q decisions=%s\n", res.Ended, decisionsString(res.Decisions))
			for _, s := range res.Inconclusive {
				fmt.Println("inconclusive:", s)
			}
			for _, v := range res.Violations {
				fmt.Println("violation:", v.Label)
			}
			for _, n := range res.Notes {
				fmt.Println("note:", n)
			}
			fmt.Printf("new prefixes: %d\n", len(res.NewPrefixes))
			return 0
		}
	}
	fmt.Fprintln(os.Stderr, "instance not found")
	return 2
}

var debugPath bool

func nonNil(s []string) []string {
	if s == nil {
		return []string{}
	}
	return s
}
