package main

import "sort"

type Property struct {
	Title       string
	Instances   func(tier string) []*Instance
	Covers      map[string][]string // harness func -> cover tags that must be reached
	Bounds      map[string]string   // tier -> text
	Outside     string
	Assumptions []string
}

var props = map[string]*Property{}

func propIDs() []string {
	var r []string
	for k := range props {
		r = append(r, k)
	}
	sort.Strings(r)
	return r
}

func init() {
	props["C19"] = &Property{
		Title: "gossiped shard view converges, never regresses",
		Instances: func(tier string) []*Instance {
			return []*Instance{
				{Pkg: "storage/cluster", Func: "VH_C19_merge"},
				{Pkg: "storage/cluster", Func: "VH_C19_batch", Unwind: 16},
				{Pkg: "storage/cluster", Func: "VH_C19_concurrent", Unwind: 16, EngineOnly: true},
				{Pkg: "storage/cluster", Func: "VH_C19_vacuity", Expect: "violated"},
			}
		},
		Covers: map[string][]string{"VH_C19_merge": {"end", "stale-update", "newer-leader", "newer-membership"}, "VH_C19_batch": {"end"}, "VH_C19_concurrent": {"end"}},
		Bounds: map[string]string{
			"quick":    "mergeShardInfo: one inductive step from an arbitrary stored view with two arbitrary updates; all integers full 64-bit; no loop; view layer: shardView.update / shardInfo with an absent or arbitrary stored view, two arbitrary records of one shard and a record of another shard in ONE call == the records one by one; two concurrent update calls (one record each) under every interleaving of their lock operations (engine only): nothing lost",
			"thorough": "same as quick",
		},
		Outside: "membership maps are compared by identity tag (one symbolic byte); gossip transport and memberlist delegate code are not executed; more than two concurrent callers; interleavings finer than lock operations (data races: the race detector's domain)",
		Assumptions: []string{
			"Raft facts about announcements of one shard: one leader per term; one membership per configuration-change index",
			"lock model: a mutex is a one-slot channel, read locks are taken exclusively; every lock operation is a scheduling point",
			"stored-view invariant: LeaderID==0 implies Term==0 (views start as {ShardID} and Term is only written with a leader); shown preserved by the step",
		},
	}
	props["C12"] = &Property{
		Title: "key encoding injective, order preserving, bookkeeping isolated",
		Instances: func(tier string) []*Instance {
			var r []*Instance
			fsm := "storage/table/fsm"
			lens := []int64{1, 2, 3, 4, 5, 6, 7, 8}
			big := []int64{1019, 1020, 1024}
			for _, n := range append(append([]int64{}, lens...), big...) {
				r = append(r, &Instance{Pkg: fsm, Func: "VH_C12_roundtrip", Args: []int64{n}})
			}
			for _, a := range lens {
				for _, b := range lens {
					if tier == "quick" && (a > 4 || b > 4) && a != b && !(a == 8 || b == 8) {
						continue
					}
					r = append(r, &Instance{Pkg: fsm, Func: "VH_C12_order", Args: []int64{a, b}})
				}
			}
			for _, pr := range [][2]int64{{1024, 1024}, {1019, 1024}, {1020, 1019}, {1, 1024}, {1023, 1024}} {
				r = append(r, &Instance{Pkg: fsm, Func: "VH_C12_order", Args: []int64{pr[0], pr[1]}})
			}
			bl := []int64{0, 1, 2, 3}
			if tier == "thorough" {
				bl = []int64{0, 1, 2, 3, 4}
			}
			for _, a := range bl {
				for _, b := range bl {
					for _, k := range bl[1:] {
						r = append(r, &Instance{Pkg: fsm, Func: "VH_C12_bounds", Args: []int64{a, b, k}})
					}
				}
			}
			for _, tr := range [][3]int64{{1024, 1024, 1024}, {1, 1024, 1019}, {1019, 1, 1020}, {1020, 1020, 1}} {
				r = append(r, &Instance{Pkg: fsm, Func: "VH_C12_bounds", Args: []int64{tr[0], tr[1], tr[2]}})
			}
			for _, n := range []int64{1, 2, 3, 8, 16} {
				r = append(r, &Instance{Pkg: fsm, Func: "VH_C12_increment", Args: []int64{n}})
			}
			for _, n := range []int64{0, 1, 5, 1029} {
				r = append(r, &Instance{Pkg: fsm, Func: "VH_C12_options", Args: []int64{n}})
			}
			r = append(r, &Instance{Pkg: fsm, Func: "VH_C12_vacuity", Args: []int64{3}, Expect: "violated"})
			for _, a := range [][2]int64{{1, 1}, {1, 2}, {2, 1}, {1, 1019}, {1, 1020}, {1, 1024}, {1024, 1024}} {
				r = append(r, &Instance{Pkg: fsm, Func: "VH_C12_deleterange", Args: []int64{a[0], a[1]}, Unwind: 32})
			}
			// the encoding has no terminator: enc(a) is a byte prefix of enc(ab), so the point
			// lookup must compare whole keys (shared with C01: single-key read of an arbitrary state)
			r = append(r, &Instance{Pkg: fsm, Func: "VH_C01_reads", Args: []int64{0, 2, 2, -1}, Unwind: 32})
			return r
		},
		Covers: map[string][]string{"VH_C12_roundtrip": {"end"}, "VH_C12_order": {"end"}, "VH_C12_bounds": {"end"}, "VH_C12_increment": {"end"}, "VH_C12_options": {"end"}, "VH_C12_deleterange": {"end", "deleted"}, "VH_C01_reads": {"end"}},
		Bounds: map[string]string{
			"quick":    "key lengths: every length 1..8 (round trip, all pairs up to 4x4 plus diagonal and 8), plus 1019/1020/1023/1024-byte keys (API limit 1024) with all bytes symbolic; bound triples with lengths 0..3 and four maximum-length triples; no symbolic loop; point lookup (shared with C01): a single-key read of an arbitrary state of up to 2 pairs with keys of 1..2 symbolic bytes (so one stored key may extend the looked-up one) answers for exactly that key",
			"thorough": "as quick with all 8x8 length pairs and bound triples 0..4",
		},
		Outside: "key lengths other than those enumerated (each enumerated length is decided for all 256^n contents); the unused stream Decoder (truncates at 1020 bytes; production uses DecodeBytes)",
		Assumptions: []string{
			"Pebble orders keys with the comparer configured in pebble.DefaultOptions (asserted to be the bytewise default with Split = whole key)",
			"bytes.Compare/bytes.Equal are encoded as one lexicographic term (Go spec semantics), validated by native replay",
		},
	}
	props["C06"] = &Property{
		Title: "replication log stream is exact",
		Instances: func(tier string) []*Instance {
			var r []*Instance
			lr := "storage/logreader"
			ws := []int64{3, 4}
			maxCache := int64(3)
			if tier == "thorough" {
				ws = []int64{3, 4, 5, 6}
				maxCache = 4
			}
			for _, w := range ws {
				for cs := int64(1); cs <= maxCache; cs++ {
					for cl := int64(0); cl <= cs && cl <= w; cl++ {
						r = append(r, &Instance{Pkg: lr, Func: "VH_C06_reader", Args: []int64{w, cs, cl}, Unwind: 16})
					}
				}
			}
			r = append(r, &Instance{Pkg: lr, Func: "VH_C06_reader_vacuity", Args: []int64{3}, Expect: "violated"})
			return r
		},
		Covers: map[string][]string{"VH_C06_reader": {"end", "nonempty-range", "compacted"}},
		Bounds: map[string]string{
			"quick":    "log window (entries after the compaction marker) 3..4, cache size 1..3 holding a contiguous run of 0..size entries at every offset; marker, requested index and size limit full 64-bit symbolic; entry types symbolic; unwind 16 (window+cache+10)",
			"thorough": "window 3..6, cache size 1..4",
		},
		Outside: "A6: the cache holds no compacted index (LogCompacted event processed before the query); entry payload sizes follow a fixed pattern (the size *limit* is symbolic so every cut position occurs); compaction racing with a query; entry compression",
		Assumptions: []string{
			"dragonboat ReadonlyLogReader contract as read from internal/logdb/logreader.go (model written in the harness, runs natively too)",
			"the request range is [r, applied+1) with r <= applied+1, as LogServer.Replicate computes it",
		},
	}
	props["C01"] = &Property{
		Title: "a table behaves as an ordered byte-string map",
		Instances: func(tier string) []*Instance {
			var r []*Instance
			fsm := "storage/table/fsm"
			n, v := int64(2), int64(-1)
			if tier == "thorough" {
				v = 1 // values of 0..1 bytes instead of exactly 1
			}
			for w := int64(0); w < 3; w++ {
				r = append(r, &Instance{Pkg: fsm, Func: "VH_C01_reads", Args: []int64{w, n, 2, v}, Unwind: 32})
			}
			if tier == "thorough" {
				// three pairs in the pre-state for the reads and the single-command kinds
				r = append(r, &Instance{Pkg: fsm, Func: "VH_C01_reads", Args: []int64{0, 3, 2, -1}, Unwind: 32})
				for k := int64(0); k <= 2; k++ {
					r = append(r, &Instance{Pkg: fsm, Func: "VH_C01_step", Args: []int64{k, 3, 2, -1, 0}, Unwind: 32})
				}
			}
			for k := int64(0); k <= 7; k++ {
				nk := n
				if k == 3 || k == 5 || k == 7 {
					nk = n - 1 // two- and three-key commands: one pair less in the pre-state
				}
				r = append(r, &Instance{Pkg: fsm, Func: "VH_C01_step", Args: []int64{k, nk, 2, v, 0}, Unwind: 32})
			}
			r = append(r, &Instance{Pkg: fsm, Func: "VH_C01_step", Args: []int64{6, 1, 1, -1, 1}, Unwind: 32})
			r = append(r, &Instance{Pkg: fsm, Func: "VH_C01_bigrange", Args: []int64{3, 1536}, Unwind: 32})
			for k1 := int64(0); k1 <= 2; k1++ {
				for k2 := int64(0); k2 <= 2; k2++ {
					r = append(r, &Instance{Pkg: fsm, Func: "VH_C01_pair", Args: []int64{k1, k2, 1}, Unwind: 32})
				}
			}
			r = append(r, &Instance{Pkg: fsm, Func: "VH_C01_vacuity", Args: []int64{2, 2, 1}, Expect: "violated"})
			return r
		},
		Covers: map[string][]string{"VH_C01_reads": {"end"}, "VH_C01_step": {"end"}, "VH_C01_bigrange": {"end"}, "VH_C01_pair": {"end"}},
		Bounds: map[string]string{
			"quick":    "pre-state: 0..2 pairs (0..1 for two/three-key commands), keys 1..2 arbitrary bytes, values 1 arbitrary byte, both bookkeeping keys present with arbitrary 64-bit values; operation keys/bounds 0..2 bytes incl. empty, wildcard and inverted ranges; all flag combinations; log index 1..64 (one varint class) plus one instance with any 64-bit index; batches/sequences of 2 elements; every ordered pair of plain commands (put / delete / delete range, all flags, 1-byte keys) delivered in one apply call from 0..1 pairs; a range delete (all flag combinations) over three pairs with 1.5 MiB values, i.e. more than one 4 MiB read chunk; unwind 32",
			"thorough": "as quick with values of 0..1 bytes, plus 0..3 pairs (1-byte values) for the reads and for put / delete / delete range",
		},
		Outside: "larger tables, keys longer than 2 bytes (key-length effects are C12's), values of other sizes than 1 byte and 1.5 MiB, Pebble internals (model M1: sorted map with batches/snapshots/iterators, bytewise order; inverted DeleteRange spans are no-ops)",
		Assumptions: []string{
			"Pebble behaves as the sorted-map model M1 (validated against real Pebble by native replay of counterexamples; see DESIGN 2/M1)",
			"one inductive step from an arbitrary state per command kind; histories of any length follow by induction over the command sequence",
		},
	}
	props["C09"] = &Property{
		Title: "range reads sorted, bounded, truthful 'more', lossless paging",
		Instances: func(tier string) []*Instance {
			fsm := "storage/table/fsm"
			n, v := int64(2), int64(-1)
			if tier == "thorough" {
				n, v = 3, 1
			}
			return []*Instance{
				{Pkg: fsm, Func: "VH_C09_unary", Args: []int64{n, 2, v}, Unwind: 32},
				{Pkg: fsm, Func: "VH_C09_stream", Args: []int64{n, 2, v, 0}, Unwind: 32},
				{Pkg: fsm, Func: "VH_C09_stream", Args: []int64{1, 2, -1, 1}, Unwind: 32},
				{Pkg: fsm, Func: "VH_C09_chunks", Unwind: 32},
				{Pkg: fsm, Func: "VH_C09_vacuity", Args: []int64{2, 2}, Expect: "violated"},
			}
		},
		Covers: map[string][]string{"VH_C09_unary": {"end", "exactly-one-beyond-limit", "limit-equals-matches"}, "VH_C09_stream": {"end"}, "VH_C09_chunks": {"end", "cut"}},
		Bounds: map[string]string{
			"quick":    "table of 0..2 pairs (keys 1..2 bytes, 1-byte values), arbitrary bounds (0..2 bytes, wildcard, inverted), limit 0..3 (less, equal, equal+1, greater than the matches), all flag variants; unary and streamed reads, and a streamed read over 0..1 pairs with a point read and a count-only range read of arbitrary keys served between opening the stream and its first pull; size cuts: 3 pairs with values of 1 byte / 1.5 MiB / 2 MiB in every combination, streamed with a delete and a put applied between the first two messages; unwind 32",
			"thorough": "0..3 pairs, values 0..1 bytes, limit 0..4",
		},
		Outside:     "value sizes other than the three classes of the size-cut harness (1 byte, 1.5 MiB, 2 MiB: sizes are concrete there); gRPC transport; more pairs than the bound",
		Assumptions: []string{"Pebble model M1", "the streamed read is consumed completely by one consumer"},
	}
	props["C03"] = &Property{
		Title: "replicas converge: state independent of batching",
		Instances: func(tier string) []*Instance {
			fsm := "storage/table/fsm"
			r := []*Instance{
				{Pkg: fsm, Func: "VH_C03_batching", Args: []int64{2, 2, 0, 1}, Unwind: 32},
				{Pkg: fsm, Func: "VH_C03_batching", Args: []int64{3, 1, 0, 1}, Unwind: 32},
				{Pkg: fsm, Func: "VH_C03_rangethenread", Args: []int64{1, 1}, Unwind: 32},
				{Pkg: fsm, Func: "VH_C03_restart", Args: []int64{0, 0, 1}, Unwind: 32},
				{Pkg: fsm, Func: "VH_C03_restart", Args: []int64{0, 1, 0}, Unwind: 32},
				{Pkg: fsm, Func: "VH_C03_restart", Args: []int64{0, 2, 0}, Unwind: 32},
				{Pkg: fsm, Func: "VH_C03_vacuity", Expect: "violated"},
			}
			if tier == "thorough" {
				r = append(r, &Instance{Pkg: fsm, Func: "VH_C03_batching", Args: []int64{2, 4, 1, 1}, Unwind: 32},
					&Instance{Pkg: fsm, Func: "VH_C03_batching", Args: []int64{3, 2, 0, 1}, Unwind: 32})
			}
			return r
		},
		Covers: map[string][]string{"VH_C03_batching": {"end", "split"}, "VH_C03_rangethenread": {"end", "split"}, "VH_C03_restart": {"end"}},
		Bounds: map[string]string{
			"quick":    "logs of 2 entries (no-op or put, each with/without leader index) and of 3 no-op entries (each with/without leader index), every partition into consecutive apply calls vs one call, arbitrary bookkeeping in the pre-state, strictly ascending indices (steps 1..64); a wildcard range delete followed by a put with prev_kv / a counted delete on a 0..1-pair pre-state, together vs separately; restart: put-put-delete, put-delete-put and put-deleterange-put over arbitrary 1-byte keys (so a key is overwritten and then deleted), each command in its own apply call, close (flush) and reopen: content and index unchanged",
			"thorough": "adds delete-range and transaction entries on a 0..1-pair pre-state, and 3-entry logs with puts",
		},
		Outside:     "snapshot transfer between apply calls (C08); Pebble's own content preservation across a reopen, except for the contract of SingleDelete (model: it cancels one Set; a value written before comes back at the next flush); logs longer than 3 entries",
		Assumptions: []string{"Pebble model M1", "two replicas = the same deterministic state machine code run on equal states (model clone)"},
	}
	props["C10"] = &Property{
		Title: "revisions follow commit order; linearizable reads",
		Instances: func(tier string) []*Instance {
			tb := "storage/table"
			var r []*Instance
			for k := int64(0); k <= 5; k++ {
				r = append(r, &Instance{Pkg: tb, Func: "VH_C10_revision", Args: []int64{k, 0}, Unwind: 32})
				if tier == "thorough" || k == 0 || k == 3 {
					r = append(r, &Instance{Pkg: tb, Func: "VH_C10_revision", Args: []int64{k, 1}, Unwind: 32})
				}
			}
			r = append(r, &Instance{Pkg: tb, Func: "VH_C10_readpath", Unwind: 32})
			r = append(r, &Instance{Pkg: "storage/table/fsm", Func: "VH_C10_samedelivery", Unwind: 32})
			r = append(r, &Instance{Pkg: "storage/table/fsm", Func: "VH_C10_listener", Args: []int64{0}, Unwind: 32})
			r = append(r, &Instance{Pkg: "storage/table/fsm", Func: "VH_C10_listener", Args: []int64{1}, Unwind: 32})
			r = append(r, &Instance{Pkg: tb, Func: "VH_C10_vacuity", Expect: "violated"})
			return r
		},
		Covers: map[string][]string{"VH_C10_revision": {"end"}, "VH_C10_readpath": {"end", "linearizable"}, "VH_C10_samedelivery": {"end"}, "VH_C10_listener": {"end", "listener-called"}},
		Bounds: map[string]string{
			"quick":    "one mutation of each kind (put, delete, delete range, transaction with empty / writing / read-only taken branch) at an arbitrary log index (1..64; any 64-bit index for put and empty-branch transaction), followed by a second mutation; 1-byte keys and values; one delivery (one apply call) of a put at revision N and a read-write transaction at N+1 whose branch writes a key and reads both keys, from an arbitrary state of 0..1 pairs: the reads reflect every lower-revision write and the transaction's own earlier ops; the applied-index listener (which releases waiting follower writes): a read issued from inside it already sees the reported entry's write, on a leader-side and on a replicated table",
			"thorough": "any 64-bit index for every kind",
		},
		Outside:     "that dragonboat's SyncRead is linearizable and that proposals are totally ordered (model M2 assumes it); concurrent clients beyond the total order",
		Assumptions: []string{"M2: a proposal is applied by the real FSM.Update at the next log index and its Result returned; reads call the real FSM.Lookup", "Pebble model M1"},
	}
	props["C02"] = &Property{
		Title: "transactions: one branch, in order, all or nothing",
		Instances: func(tier string) []*Instance {
			fsm := "storage/table/fsm"
			r := []*Instance{
				{Pkg: fsm, Func: "VH_C02_txn", Args: []int64{1, 1, 1, 1}, Unwind: 32},
				{Pkg: fsm, Func: "VH_C02_txn", Args: []int64{0, 2, 0, 1}, Unwind: 32},
				{Pkg: fsm, Func: "VH_C02_txn", Args: []int64{2, 0, 1, 1}, Unwind: 32},
				{Pkg: fsm, Func: "VH_C02_readonly", Args: []int64{1, 2, 1}, Unwind: 32},
				{Pkg: fsm, Func: "VH_C02_inbatch", Args: []int64{0, 1, 1}, Unwind: 32},
				{Pkg: fsm, Func: "VH_C02_inbatch", Args: []int64{1, 1, 1}, Unwind: 32},
				{Pkg: fsm, Func: "VH_C02_readonly_concurrent", Unwind: 32, EngineOnly: true},
				{Pkg: fsm, Func: "VH_C02_vacuity", Expect: "violated"},
			}
			if tier == "thorough" {
				// (two predicates on 0..2 pairs, 2-byte keys and a two-pair read-only
				// transaction each exceed the path budget of 200000 and are not claimed)
				r = append(r, &Instance{Pkg: fsm, Func: "VH_C02_txn", Args: []int64{0, 2, 1, 1}, Unwind: 32})
			}
			return r
		},
		Covers: map[string][]string{"VH_C02_txn": {"end"}, "VH_C02_readonly": {"end"}, "VH_C02_inbatch": {"end", "success-branch", "failure-branch"}, "VH_C02_readonly_concurrent": {"end"}},
		Bounds: map[string]string{
			"quick":    "transactions with (1 predicate, 1 success op), (0 predicates, 2 success ops), (2 predicates, 0 success ops), each with a one-put failure branch; predicates: any result enum, with/without value target, single key or range; ops: range / put / delete(range) with all flags; pre-state 0..1 pairs (0 for the two-op shape), 1-byte keys/values; read-only transaction (1 predicate) on 0..2 pairs; a transaction (1 predicate, one-put branches) after a plain put / delete / wildcard range delete in the same apply call and in the same command sequence, pre-state 0..1 pairs; a read-only transaction (value predicate on k, get k in both branches) racing with a put of k under every interleaving of their database-handle operations (engine only): the answer is that of the state before or after the put",
			"thorough": "adds the two-op shape on a 0..1-pair state",
		},
		Outside:     "longer predicate / operation lists; operations with an empty oneof (C16); crash atomicity (C04: one Pebble batch, one commit)",
		Assumptions: []string{"Pebble model M1 (indexed batch reads see earlier writes of the batch)", "predicate semantics as documented in docs/user_guide/transactions.md and the property statement"},
	}
	props["C13"] = &Property{
		Title: "metadata store: deterministic compare-and-set register map",
		Instances: func(tier string) []*Instance {
			kv := "storage/kv"
			n := int64(2)
			if tier == "thorough" {
				n = 3
			}
			return []*Instance{
				{Pkg: kv, Func: "VH_C13_update", Args: []int64{n}, Unwind: 32},
				{Pkg: kv, Func: "VH_C13_versions", Unwind: 32},
				{Pkg: kv, Func: "VH_C13_glob", Args: []int64{n}, Unwind: 64},
				{Pkg: kv, Func: "VH_C13_snapshot", Args: []int64{n}, Unwind: 64},
				{Pkg: kv, Func: "VH_C13_vacuity", Expect: "violated"},
			}
		},
		Covers: map[string][]string{"VH_C13_update": {"end", "set-ok", "set-mismatch", "delete-ok", "delete-mismatch"}, "VH_C13_versions": {"end", "same-key"}, "VH_C13_glob": {"end"}, "VH_C13_snapshot": {"end", "raced", "stale-key"}},
		Bounds: map[string]string{
			"quick":    "store of 0..2 pairs (distinct arbitrary 1-byte keys, arbitrary values, arbitrary earlier versions), one update of each op with arbitrary key/value/version (stale, current, zero, future) at an arbitrary 64-bit log index; glob over 2 keys drawn from the 4 key shapes the callers use with an arbitrary path element; snapshot: source store of 0..2 arbitrary pairs, optionally a set and a delete applied between prepare and save, receiver with 0..2 other arbitrary pairs (same or different keys), install through the real PrepareSnapshot/SaveSnapshot/RecoverFromSnapshot and MapStore.MarshalJSON/UnmarshalJSON",
			"thorough": "3 pairs / 3 keys",
		},
		Outside: "the JSON text itself (escaping, number formats, key order: encoding/json is reflection code and is modelled, M4); snapshots written in several pieces; multi-byte path elements; List/ListDir (no caller)",
		Assumptions: []string{
			"M2: proposals are applied by the real LFSM.Update at consecutive, increasing log indices",
			"M4: json.Marshal/Unmarshal of kv.Update and kv.Pair round-trip field by field; a json.Marshaler's / Unmarshaler's own method is called with the document; unmarshalling into a map allocates only when the map is nil and otherwise adds to / overwrites its entries (encoding/json's documented behaviour); json.Decoder over a *bytes.Reader consumes one whole document",
		},
	}
	props["C15"] = &Property{
		Title: "at most one unexpired replication lease",
		Instances: func(tier string) []*Instance {
			tb := "storage/table"
			return []*Instance{
				{Pkg: tb, Func: "VH_C15_lease", Args: []int64{1, 1}, Unwind: 32},
				{Pkg: tb, Func: "VH_C15_lease", Args: []int64{2, 0}, Unwind: 32},
				{Pkg: tb, Func: "VH_C15_return", Unwind: 32},
				{Pkg: tb, Func: "VH_C15_vacuity", Expect: "violated"},
			}
		},
		Covers: map[string][]string{"VH_C15_lease": {"end", "granted", "held", "returned"}, "VH_C15_return": {"end", "foreign"}},
		Bounds: map[string]string{
			"quick":    "one call of node 1 (lease/renew or return) from an arbitrary pre-existing record (absent / owner 1,2,3 / arbitrary expiry instant and version), with one, and with two, arbitrary calls (lease, renew, return, none) of node 2 between node 1's store read and store write (two calls: the record can be deleted and re-created inside the window; that instance ends after node 1's call), then one arbitrary call of node 3 and one more of node 2; lease durations 10 s and -1 s; all clock readings symbolic, monotone, non-decreasing",
			"thorough": "same (the step is inductive over the record; more calls add nothing new)",
		},
		Outside: "clock skew between nodes (one global monotone clock is assumed); the worker's cached 'leased' flag lagging a renewal behind; more than two interfering calls inside a single read-write window",
		Assumptions: []string{
			"M2 with the real LFSM: store writes are compare-and-set on the version (C13)",
			"M4: json round trip of table.Lease preserves ID and the instant",
			"a lease is counted from the clock reading taken just before the call (earliest possible expiry), which is conservative for mutual exclusion",
		},
	}
	props["C14"] = &Property{
		Title: "table catalogue: unique names, never-reused ids",
		Instances: func(tier string) []*Instance {
			tb := "storage/table"
			r := []*Instance{
				{Pkg: tb, Func: "VH_C14_step", Unwind: 64},
				{Pkg: tb, Func: "VH_C14_recreate", Unwind: 64},
				{Pkg: tb, Func: "VH_C14_race", Args: []int64{1}, Unwind: 64, NoWitness: true},
				{Pkg: tb, Func: "VH_C14_race", Args: []int64{0}, Unwind: 64, NoWitness: true},
				{Pkg: tb, Func: "VH_C14_diff", Args: []int64{2, 1}, Unwind: 64},
				{Pkg: tb, Func: "VH_C14_diff", Args: []int64{1, 2}, Unwind: 64},
				{Pkg: tb, Func: "VH_C14_reconcile", Unwind: 64, EngineOnly: true},
				{Pkg: tb, Func: "VH_C14_snapshot", Unwind: 64},
				{Pkg: tb, Func: "VH_C14_names", Unwind: 64},
				{Pkg: tb, Func: "VH_C14_vacuity", Expect: "violated"},
			}
			if tier == "thorough" {
				r = append(r, &Instance{Pkg: tb, Func: "VH_C14_diff", Args: []int64{2, 2}, Unwind: 64})
			}
			return r
		},
		Covers: map[string][]string{"VH_C14_step": {"end", "create-ok", "create-exists", "delete-ok"}, "VH_C14_recreate": {"end"}, "VH_C14_race": {"end", "one-wins"}, "VH_C14_diff": {"end", "start", "stop"}, "VH_C14_reconcile": {"end", "start", "stop"}, "VH_C14_snapshot": {"end", "stale-name"}, "VH_C14_names": {"end"}},
		Bounds: map[string]string{
			"quick":    "catalogue over 3 names with arbitrary membership, ids drawn from (10000, seq] for seq in {absent, 10003, 10007}, arbitrary record versions; one create/delete/list step; delete+recreate; two racing creates (of one name, and of two different names) with every interleaving of their store accesses; diffTables over 2 records x 1 running shard and 1 record x 2 running shards (ids and recover-ids 64-bit symbolic) under all map orders; the whole Manager.reconcile (engine only) over a catalogue of 0..2 tables with table id and optional recovery id (also recovery id alone) from 10001..10004 and every subset of 10001..10004 running: exactly the missing catalogued ids are started under their own id, exactly the uncatalogued running ones stopped; a store replica holding an arbitrary stale catalogue over 2 names caught up by a snapshot of an arbitrary source catalogue over the same names: listing and lookups on it equal the source's; creation under each of the names \"a/b\", \"a/lease\", \"sys/idseq\" (nested, another table's lease key, the id-sequence key) on an arbitrary catalogue: catalogued like any other table or refused without consuming an id or writing a record, listing exact",
			"thorough": "diffTables 2 x 2",
		},
		Outside:     "emptiness of a (re)created table's data (the state-machine directory is derived from name and id; exercising FSM.Open needs the file-system model: see C04) and isolation between shards; names odd in other ways than containing '/' (empty, pattern characters); actual shard start/stop inside dragonboat; Restore's id switch",
		Assumptions: []string{"M2 with the real LFSM (C13); M4 json round trip of table.Table", "StartOnDiskReplica/HasNodeInfo only record their arguments"},
	}
	props["C16"] = &Property{
		Title: "invalid requests rejected without effect; no crash",
		Instances: func(tier string) []*Instance {
			rs := "regattaserver"
			return []*Instance{
				{Pkg: rs, Func: "VH_C16_range", Args: []int64{0}, Unwind: 64},
				{Pkg: rs, Func: "VH_C16_range", Args: []int64{1}, Unwind: 64},
				{Pkg: rs, Func: "VH_C16_write", Args: []int64{0}, Unwind: 64},
				{Pkg: rs, Func: "VH_C16_write", Args: []int64{1}, Unwind: 64},
				{Pkg: rs, Func: "VH_C16_txn", Args: []int64{0}, Unwind: 64},
				{Pkg: rs, Func: "VH_C16_txn", Args: []int64{1}, Unwind: 64},
				{Pkg: rs, Func: "VH_C16_txn", Args: []int64{2}, Unwind: 64},
				{Pkg: rs, Func: "VH_C16_txn", Args: []int64{3}, Unwind: 64},
				{Pkg: rs, Func: "VH_C16_txn", Args: []int64{4}, Unwind: 64},
				{Pkg: rs, Func: "VH_C16_txn", Args: []int64{5}, Unwind: 64},
				{Pkg: rs, Func: "VH_C16_txn", Args: []int64{6}, Unwind: 64},
				{Pkg: rs, Func: "VH_C16_tables", Unwind: 64},
				{Pkg: rs, Func: "VH_C16_vacuity", Expect: "violated"},
			}
		},
		Covers: map[string][]string{"VH_C16_range": {"end", "malformed", "unsupported", "unknown-table", "oversize", "valid"}, "VH_C16_write": {"end", "malformed", "oversize", "valid"}, "VH_C16_txn": {"end"}, "VH_C16_tables": {"end"}},
		Bounds: map[string]string{
			"quick":    "every combination of: table absent / known / unknown; key and range_end absent / 1 arbitrary byte / 1024 bytes / 1025 bytes; value absent / 1 byte / 2 MiB / 2 MiB+1; limit any int64; all boolean flags; each revision filter; transactions with one nested put / delete / range (same classes) or an empty oneof, and with two operations (a put of every class next to an unset oneof or a range, in either order and either branch); Tables create/delete of missing / existing / new name on leader and follower servers; a panic anywhere below the RPC method is a violation",
			"thorough": "same",
		},
		Outside:     "field lengths other than the class representatives (lengths only enter through len() comparisons with 0, 1024 and 2 MiB); transactions with more than one operation; gRPC transport-level limits; exact status code for oversize keys/values and for leader-side Tables errors (non-OK and no effect are demanded)",
		Assumptions: []string{"M1, M2 (real Engine, Manager, RaftStore+LFSM, ActiveTable, FSM behind the NodeHost model), M4, M5 (status codes as opaque errors)"},
	}
	props["C11"] = &Property{
		Title: "writes through a follower; waiting never wedges the node",
		Instances: func(tier string) []*Instance {
			st := "storage"
			r := []*Instance{
				{Pkg: st, Func: "VH_C11_queue", Args: []int64{2, 2}, Unwind: 64},
				{Pkg: st, Func: "VH_C11_queue", Args: []int64{4, 3}, Unwind: 64},
				{Pkg: st, Func: "VH_C11_vacuity", Expect: "violated"},
				{Pkg: "storage/table/fsm", Func: "VH_C11_applied", Args: []int64{1}, Unwind: 32},
				{Pkg: "storage/table/fsm", Func: "VH_C11_applied", Args: []int64{2}, Unwind: 32},
			}
			return r
		},
		Covers: map[string][]string{"VH_C11_queue": {"end", "notify", "sweep"}, "VH_C11_applied": {"end", "entry-without-leader-index"}},
		Bounds: map[string]string{
			"quick":    "queue: an arbitrary heap of 0..4 waiters on one table (arbitrary 64-bit revisions incl. 0 in heap order, any subset cancelled) followed by 3 events, each an apply notification with an arbitrary revision or a sweep tick, plus a final releasing notification; each waiter's channel read exactly once; a state where every goroutine is blocked is a violation. listener: follower table with arbitrary unrelated local and leader index, apply batches of 1..2 entries each with/without leader index",
			"thorough": "same",
		},
		Outside: "two tables at once (heaps are per table and independent); Add racing with the events (Add is sequential with them here); the gRPC forwarding itself (ForwardingKVServer passes the leader's revision to Add: read, not encoded); FSM.Open's report (needs the file-system model: C04); operator reset (leader index 0)",
		Assumptions: []string{
			"scheduler of the engine: goroutines interleave at channel operations; select picks every ready case; time (ticks, sleeps) passes only when every other goroutine is blocked",
			"contexts are cancelled by the environment only between events",
		},
	}
	props["C17"] = &Property{
		Title: "protected endpoints reject callers lacking the right token",
		Instances: func(tier string) []*Instance {
			c := "cmd"
			return []*Instance{
				{Pkg: c, Func: "VH_C17_token", Args: []int64{1}, Unwind: 32},
				{Pkg: c, Func: "VH_C17_token", Args: []int64{3}, Unwind: 32},
				{Pkg: c, Func: "VH_C17_header", Args: []int64{2}, Unwind: 32},
				{Pkg: c, Func: "VH_C17_notoken", Unwind: 32},
				{Pkg: "security", Func: "VH_C17_tls", Args: []int64{2}, Unwind: 32},
				{Pkg: c, Func: "VH_C17_wiring", Args: []int64{0}, Unwind: 32, EngineOnly: true},
				{Pkg: c, Func: "VH_C17_wiring", Args: []int64{1}, Unwind: 32, EngineOnly: true},
				{Pkg: c, Func: "VH_C17_vacuity", Expect: "violated"},
			}
		},
		Covers: map[string][]string{"VH_C17_token": {"end", "accepted", "rejected"}, "VH_C17_header": {"end", "accepted", "rejected"}, "VH_C17_notoken": {"end"}, "VH_C17_tls": {"end", "client-auth", "accepted", "refused"}, "VH_C17_wiring": {"end", "accepted", "rejected"}},
		Bounds: map[string]string{
			"quick":    "configured token of 1 and of 3 arbitrary bytes; presented token absent or arbitrary of 0..n+1 bytes (shorter = prefix-like, equal length, longer = suffix-like; case variants are just other byte values); a wholly arbitrary ASCII authorization header value of 0..10 bytes against a 2-byte token with the documented contract as oracle (scheme matched case-insensitively, token exactly); each of the four protected server types and the KV / Cluster servers; unary and streaming interceptor; the API-server registration closures of cmd.leader and cmd.follower executed with 2-byte arbitrary tokens configured; TLS option logic: security.TLSInfo.ServerConfig/baseConfig with a trusted CA file present or not, ClientCertAuth on or off, an allowed common name of 0..2 arbitrary bytes: ClientAuth = RequireAndVerifyClientCert exactly when a CA or client-cert auth is configured, ClientCAs set from the CA file, and the installed VerifyPeerCertificate accepts verified chains (none, one, leaf+issuer, an empty chain first) exactly when the leaf's common name (0..2 arbitrary bytes) equals the allowed one",
			"thorough": "same",
		},
		Outside: "the TLS handshake, chain building against the CA, PEM / certificate parsing and hostname matching (crypto/tls, crypto/x509: not encodable; what regatta asks them to enforce is checked, not that they enforce it); the AllowedHostname variant (delegates to x509.VerifyHostname); certificate reloading closures; non-ASCII header bytes (gRPC transports reject them; unicode case folding tables are not encoded); several authorization values in one request (the first is used); gRPC's dispatch of info.Server; tokens longer than 4 bytes (string equality is length-generic)",
		Assumptions: []string{
			"M5: grpc/metadata.FromIncomingContext returns the request's authorization value (or no metadata); the middleware's metadata wrapper, auth.AuthFromMD and the interceptors are interpreted from source",
			"TLS harness: os.ReadFile returns the content of files the harness created; the fake CA file holds no PEM block (empty pool, as natively); the key-pair parser is the TLSInfo.parseFunc test hook",
			"wiring harness: viper.GetBool/GetString return the configured values; captured variables of the closures (engine, conn, queue) are opaque; engine-only (no native twin: the closures are not addressable from outside leader()/follower())",
		},
	}
	props["C18"] = &Property{
		Title: "wire codecs and stream framing lossless",
		Instances: func(tier string) []*Instance {
			pb := "regattapb"
			var r []*Instance
			for w := int64(0); w <= 8; w++ {
				r = append(r, &Instance{Pkg: pb, Func: "VH_C18_mvcc", Args: []int64{w}, Unwind: 32, MaxPath: 400000})
			}
			for w := int64(0); w <= 5; w++ {
				r = append(r, &Instance{Pkg: pb, Func: "VH_C18_api", Args: []int64{w}, Unwind: 32, MaxPath: 400000})
			}
			for w := int64(0); w <= 2; w++ {
				r = append(r, &Instance{Pkg: pb, Func: "VH_C18_replication", Args: []int64{w}, Unwind: 32, MaxPath: 400000})
			}
			r = append(r, &Instance{Pkg: pb, Func: "VH_C18_pooledsend", Unwind: 32})
			sn := "replication/snapshot"
			r = append(r, &Instance{Pkg: sn, Func: "VH_C18_framing", Args: []int64{1, 0}, Unwind: 64, NoWitness: true})
			r = append(r, &Instance{Pkg: sn, Func: "VH_C18_framing", Args: []int64{1, 1}, Unwind: 64, NoWitness: true})
			if tier == "thorough" {
				r = append(r, &Instance{Pkg: sn, Func: "VH_C18_framing", Args: []int64{2, 2}, Unwind: 64, EngineOnly: true, NoWitness: true})
			} else {
				r = append(r, &Instance{Pkg: sn, Func: "VH_C18_framing", Args: []int64{1, 2}, Unwind: 64, EngineOnly: true, NoWitness: true})
			}
			// (two records with cuts at every byte position exceed the path budget: the
			// two-record case is covered with whole reads and short reads, [2 2])
			r = append(r, &Instance{Pkg: "regattaserver", Func: "VH_C18_recvbuffers", Unwind: 64, EngineOnly: true})
			r = append(r, &Instance{Pkg: sn, Func: "VH_C18_framing_vacuity", Expect: "violated"})
			r = append(r, &Instance{Pkg: pb, Func: "VH_C18_vacuity", Expect: "violated"})
			return r
		},
		Covers: map[string][]string{"VH_C18_mvcc": {"end"}, "VH_C18_api": {"end"}, "VH_C18_replication": {"end"}, "VH_C18_pooledsend": {"end"}, "VH_C18_framing": {"end"}, "VH_C18_recvbuffers": {"end", "codec-aliases-receive-buffer"}},
		Bounds: map[string]string{
			"quick":    "messages: every shape of Command (own optional fields; kv; batch 0..2; txn with 0..1 compare/success/failure of every op kind; sequence of 1..2), CommandResult, Txn, RequestOp, ResponseOp, Compare, KeyValue, Range/Put/DeleteRange/Txn request+response, ResponseHeader, ReplicateRequest/Response (all arms), SnapshotChunk; per run one byte-length class (absent, 1, 2 bytes) and one varint class (0; 1..64; 128..383; top bit set) for all fields of the message, every field with its own symbolic content; KeyValue and SnapshotChunk additionally with independent classes per field; SnapshotChunk into a pooled object that held another chunk, and re-used after ResetVT; Command built on a recycled pooled object. framing: 1 record of 1..3 arbitrary bytes, stream cut at every position (reader hands out 1..n bytes per call), received via WriteTo and via Read; 1 record (thorough: 2) read back through a reader that may return short reads (full / 1 byte / half) at every call (engine only)",
			"thorough": "as quick, with the short-read framing instance over 2 records instead of 1 (engine only)",
		},
		Outside:     "gzip / snappy / zstd compressors and their pooled state under concurrency: compression kernels cannot be encoded (declined; the snappy layer inside the snapshot file is an identity pipe here); fields longer than 2 bytes; varint lengths 3..9; mixed presence patterns inside nested messages; the backup tar writer",
		Assumptions: []string{"the real generated vtproto code and the registered Codec are executed; sync.Pool is a LIFO list (reuse always happens)"},
	}
	props["C04"] = &Property{
		Title: "crash recovery exposes exactly a prefix, atomically, once",
		Instances: func(tier string) []*Instance {
			fsm := "storage/table/fsm"
			return []*Instance{
				{Pkg: fsm, Func: "VH_C04_open", Args: []int64{0}, Unwind: 64},
				{Pkg: fsm, Func: "VH_C04_open", Args: []int64{1}, Unwind: 64},
				{Pkg: fsm, Func: "VH_C04_reopen", Unwind: 64},
				{Pkg: fsm, Func: "VH_C04_bigbatch", Unwind: 64, EngineOnly: true},
				{Pkg: fsm, Func: "VH_C04_vacuity", Expect: "violated"},
			}
		},
		Covers: map[string][]string{"VH_C04_open": {"end", "crash-during"}, "VH_C04_reopen": {"end", "crash-during"}, "VH_C04_bigbatch": {"end", "flushed-on-its-own"}},
		Bounds: map[string]string{
			"quick":    "first open (host directory durable beforehand / created by this open) + one applied batch + sync, and reopen of a cleanly closed table (with or without a left-over current.updating) + second batch + sync; crash at each of the first 30 regatta-level file-system operations (the sequences are shorter) or after everything; one crash per run (repeated crashes follow by induction: the post-crash state is again 'table closed, everything volatile lost'); (engine only) one apply call of two entries after a synced one, with Pebble flushing its memtable on its own after any commit and the batch crossing any size threshold after any write, process death right after: index i reopened => exactly entries 1..i visible",
			"thorough": "same",
		},
		Outside: "Pebble's own atomicity (flush + manifest switch; a crash inside a Pebble operation): trusted, the model makes committed content durable exactly at Flush and only if the DB directory entry is durable; snapshot recovery / directory switch-over during RecoverFromSnapshot (the SST ingest / checkpoint payload cannot be encoded); disk errors, torn writes; re-applying entries after the reported index (C03's determinism)",
		Assumptions: []string{
			"M6: vfs.NewStrictMem semantics (file data durable up to its last Sync, directory entries up to the directory's last Sync); native replay runs the same harness on the real StrictMem with real Pebble",
			"M1 with durability = last Flush (WAL disabled, as rp.DefaultOptions sets and C12 asserts)",
			"crash points are regatta's own file-system calls",
		},
	}
	props["C07"] = &Property{
		Title: "restoring a table stream reproduces the captured content",
		Instances: func(tier string) []*Instance {
			tb := "storage/table"
			r := []*Instance{
				{Pkg: tb, Func: "VH_C07_restore", Args: []int64{0, 0}, Unwind: 64},
				{Pkg: tb, Func: "VH_C07_restore", Args: []int64{1, 0}, Unwind: 64},
				{Pkg: tb, Func: "VH_C07_restore", Args: []int64{2, 0}, Unwind: 64},
				{Pkg: tb, Func: "VH_C07_restore", Args: []int64{2, 2048}, Unwind: 64},
				{Pkg: "storage/table/fsm", Func: "VH_C07_stream", Args: []int64{2}, Unwind: 64},
				{Pkg: "storage/table/fsm", Func: "VH_C07_pointintime", Unwind: 64, EngineOnly: true},
				{Pkg: tb, Func: "VH_C07_vacuity", Expect: "violated"},
			}
			if tier == "thorough" {
				r = append(r, &Instance{Pkg: tb, Func: "VH_C07_restore", Args: []int64{3, 0}, Unwind: 64})
			}
			return r
		},
		Covers: map[string][]string{"VH_C07_restore": {"end", "threshold-on-first-record"}, "VH_C07_stream": {"end"}, "VH_C07_pointintime": {"end", "old", "new"}},
		Bounds: map[string]string{
			"quick":    "streams of 0..2 records (PUT commands with arbitrary 1-byte keys and values, in key order) plus the final index-carrying command, restored into an empty table with an arbitrary 64-bit MaxInMemLogSize (incl. 0), so the batch threshold falls on every record position; declared index 1..64; one stream whose first value has the maximum accepted size (2 MiB); production: FSM.Lookup(SnapshotRequest) / commandSnapshot / writeCommand over an arbitrary table of 0..2 pairs (keys 1..2 bytes, values 0..1 bytes, arbitrary bookkeeping): exactly the pairs in order and the applied index; point in time (engine only): one put applied concurrently with the production of a stream over 0..1 pairs, every interleaving of their database operations: the stream is the table at exactly the index it declares",
			"thorough": "0..3 records",
		},
		Outside:     "Pebble's snapshot isolation itself (model M1); interleavings finer than one database operation; the chunk transport and file framing (C18), Manager.Restore's shard start / leader wait / catalogue switch (C14), retry timing, the backup manifest's md5 check, large values",
		Assumptions: []string{"M1, M2 (proposals applied by the real FSM.Update), backoff.Retry calls the proposal at most twice", "one Read call of the source delivers one record (snapshotFile.Read contract, C18)"},
	}
	props["C05"] = &Property{
		Title: "follower equals leader at its recorded leader index",
		Instances: func(tier string) []*Instance {
			rp := "replication"
			r := []*Instance{
				{Pkg: rp, Func: "VH_C05_round", Args: []int64{0, 1, 1, 1, 14}, Unwind: 64, NoWitness: true},
				{Pkg: rp, Func: "VH_C05_round", Args: []int64{1, 4, 1, 1, 14}, Unwind: 64, NoWitness: true},
				{Pkg: rp, Func: "VH_C05_round", Args: []int64{2, 2, 0, 1, 7}, Unwind: 64, NoWitness: true},
				{Pkg: rp, Func: "VH_C05_split", Args: []int64{4}, Unwind: 64, NoWitness: true},
				// recovery by snapshot: the stream a lagging follower installs is the leader's
				// table at exactly the index it declares (shared with C07)
				{Pkg: "storage/table/fsm", Func: "VH_C07_pointintime", Unwind: 64, EngineOnly: true},
				// the leader's cached log reader serving followers at different positions:
				// what a follower is handed starts at the index it asked for (shared with C06)
				{Pkg: "storage/logreader", Func: "VH_C06_reader", Args: []int64{3, 2, 1}, Unwind: 16},
				{Pkg: "storage/logreader", Func: "VH_C06_reader", Args: []int64{4, 2, 2}, Unwind: 16},
				{Pkg: rp, Func: "VH_C05_vacuity", Expect: "violated"},
			}
			if tier == "thorough" {
				r = append(r, &Instance{Pkg: rp, Func: "VH_C05_round", Args: []int64{2, 2, 0, 1, 14}, Unwind: 64, NoWitness: true})
			}
			return r
		},
		Covers: map[string][]string{"VH_C05_round": {"end", "completed"}, "VH_C05_split": {"end"}, "VH_C07_pointintime": {"end", "old", "new"}, "VH_C06_reader": {"end"}},
		Bounds: map[string]string{
			"quick":    "one replication round (real worker.do + proposeBatch pulling from the real LogServer.Replicate over logreader.Simple): leader table in an arbitrary state (0..1 pairs of 1-byte arbitrary key/value) at an arbitrary index L (1 <= L < 2^14, so one- and two-byte varints and the step between them) with the log compacted up to L; follower with the same content, recorded leader index L and an unrelated own index; the leader then applies m commands: m=0; m=1 of 4 kinds (put, delete, range delete, non-idempotent transaction / dummy as generated by vhArbCommand); m=2 of 2 kinds with L < 2^7; arbitrary 64-bit message-size limit (0 = default), so the stream is cut at every position; the stream deadline may pass on the server at any loop iteration (symbolic clock); oracle: follower content == leader content at exactly the follower's recorded leader index, which is one the leader produced and never moves backwards, and a completed round ends at the leader's applied index with result 'tailing'; (split) one message carrying an arbitrary command of 4 kinds, a put with a 300 KiB value and a small put, so that proposeBatch cuts the message into two proposals at desiredProposalSize: every command applied exactly once; (recovery) the stream produced for a follower that recovers by snapshot, with one leader write applied concurrently under every interleaving of their database operations (engine only): content and declared index belong to the same state; (cached log reader, shared with C06) two queries at arbitrary positions against logreader.Cached over a log of 3..4 entries with a cache of 2: every answer starts at the requested index, is gap-free, and the cache stays one contiguous run",
			"thorough": "quick + m=2 (2 kinds) with L < 2^14 (two commands of all 4 kinds over a non-empty table exceed the path budget of 200000 and are not claimed)",
		},
		Outside: "proposal-size cuts at other positions than after the second of three commands; the lease/queue scheduling around do() (worker.Start loop, timers, metrics); snapshot recovery when the leader log is ahead (USE_SNAPSHOT path: asserted unreachable here, covered for content by C07); gRPC transport (the stream is an in-memory marshal/unmarshal copy of each message); more than 2 new commands per round; Cached log reader in this round (C06 covers the reader itself); leader-side concurrency (new entries applied while streaming)",
		Assumptions: []string{
			"M2: the leader table is its real state machine behind a totally ordered log written in the harness (SyncPropose applies and appends an EncodedEntry with a one-byte header, as dragonboat does for uncompressed proposals); the follower is the NodeHost model around the real FSM",
			"dragonboat log reader contract as in C06 (vhLog)",
			"context deadlines: WithTimeout's deadline is an instant of the symbolic monotone clock plus the timeout; time.Now() may jump arbitrarily forward",
			"protohelpers.SizeOfVarint summarised by a case split on the 7-bit class of its argument (equivalent to the library source)",
			"metrics calls are no-ops; float conversions of symbolic integers flow only into them",
		},
	}
	props["C08"] = &Property{
		Title: "in-cluster snapshots faithful, point-in-time, installed atomically",
		Instances: func(tier string) []*Instance {
			fp := "storage/table/fsm"
			n := int64(1)
			if tier == "thorough" {
				n = 2
			}
			r := []*Instance{}
			for _, st := range []int64{0, 1} {
				for _, rt := range []int64{0, 1} {
					r = append(r, &Instance{Pkg: fp, Func: "VH_C08_transfer", Args: []int64{st, rt, n}, Unwind: 64})
				}
			}
			r = append(r,
				&Instance{Pkg: fp, Func: "VH_C08_cuts", Args: []int64{2}, Unwind: 64, EngineOnly: true},
				&Instance{Pkg: fp, Func: "VH_C08_stop", Args: []int64{0, 1}, Unwind: 64},
				&Instance{Pkg: fp, Func: "VH_C08_stop", Args: []int64{1, 1}, Unwind: 64, NoWitness: true}, // the k-th read of a real tar stream is elsewhere
				&Instance{Pkg: fp, Func: "VH_C08_crash", Args: []int64{0}, Unwind: 64},
				&Instance{Pkg: fp, Func: "VH_C08_crash", Args: []int64{1}, Unwind: 64},
				&Instance{Pkg: fp, Func: "VH_C08_readacross", Args: []int64{0, 0}, Unwind: 64},
				&Instance{Pkg: fp, Func: "VH_C08_readacross", Args: []int64{1, 0}, Unwind: 64},
				&Instance{Pkg: fp, Func: "VH_C08_overlap", Args: []int64{0}, Unwind: 64},
				&Instance{Pkg: fp, Func: "VH_C08_overlap", Args: []int64{1}, Unwind: 64},
				&Instance{Pkg: fp, Func: "VH_C08_vacuity", Expect: "violated"},
			)
			return r
		},
		Covers: map[string][]string{"VH_C08_transfer": {"end", "raced"}, "VH_C08_cuts": {"end"}, "VH_C08_stop": {"end", "recover-stopped"}, "VH_C08_crash": {"end", "crash-during", "crash-after"}, "VH_C08_readacross": {"end"}, "VH_C08_overlap": {"end"}},
		Bounds: map[string]string{
			"quick":    "real PrepareSnapshot/SaveSnapshot/RecoverFromSnapshot, both recoverers' prepare/save/recover, writeLenDelimited, header dispatch, Open/Close: (transfer) all four (saver format, receiver configured format) pairs; saver table with 0..1 arbitrary pairs (1-byte key/value) and arbitrary 64-bit applied and leader index; optionally a put, and a range delete, applied between prepare and save; receiver with 0..1 other pairs; install, then restart of the receiver; (cuts, engine only) sstable stream of 0..2 pairs cut into tables after any Set; (stop) stop signal at any of the first 6 writes of save / first 8 reads of recover, both formats, stopped recover leaves the previous state usable and a later recover installs; (crash) receiver on a strict file system with a durable previous state, crash at any of the first 40 file-system operations issued by regatta during reopen+install or after it, both formats, reopen shows the previous or the snapshot state complete with its indices and a completed install survives; (read across) a streaming range read obtained before an install and first pulled after it, both formats; (overlap) two prepared snapshots alive at once with a write between the prepares, both formats: each saved stream installs the state of its own prepare",
			"thorough": "same with 0..2 pairs in the transferred table",
		},
		Outside: "fidelity of Pebble's SST blocks / manifest / checkpoint hard-links and of archive/tar's record format (the payload containers are content-preserving models: M1 extension in model_sst.go); compression applied by dragonboat; tables above the sstable size threshold natively (the cut is explored in the engine only); a read already pulling when the install happens (iterator open on the DB being closed: Pebble-internal behaviour); unary reads racing with the swap between Load() and NewIter (same root cause as the listed finding); crash on the saver side; arbitrary/corrupt header bytes (getRecoverer panics on an unknown type: dragonboat checksums snapshot files, so such a header is not an input)",
		Assumptions: []string{
			"M1: sstable.Writer delivers exactly the pairs Set in ascending order to DB.Ingest; EstimatedSize is arbitrary non-decreasing (cuts) or 0; Ingest requires well-formed, mutually non-overlapping tables, makes them durable only if the caller synced the file content, and moves the files; Checkpoint yields a directory holding the flushed content; pebble.Open syncs its own directory (OPTIONS file + dataDir.Sync)",
			"archive/tar delivers the (name, type, size, bytes) entries written, in order; FileInfoHeader takes name, size and kind from the FileInfo",
			"encoding/binary.Read/Write summarised for unsigned integers and byte arrays (the reflection path is not interpreted)",
			"M6 crash model as in C04; dragonboat never runs SaveSnapshot/Update/Sync/Close concurrently with RecoverFromSnapshot (its documented contract), Lookup may run concurrently",
		},
	}
}
