package main

import "sort"

type Property struct {
	Title       string
	Instances   func(tier string) []*Instance
	Covers      map[string][]string // harness func -> cover tags that must be reached
	Bounds      map[string]string   // tier -> text
	Outside     string
	Assumptions []string
}

var props = map[string]*Property{}

func propIDs() []string {
	var r []string
	for k := range props {
		r = append(r, k)
	}
	sort.Strings(r)
	return r
}

func init() {
	props["C19"] = &Property{
		Title: "gossiped shard view converges, never regresses",
		Instances: func(tier string) []*Instance {
			return []*Instance{
				{Pkg: "storage/cluster", Func: "VH_C19_merge"},
				{Pkg: "storage/cluster", Func: "VH_C19_vacuity", Expect: "violated"},
			}
		},
		Covers: map[string][]string{"VH_C19_merge": {"end", "stale-update", "newer-leader", "newer-membership"}},
		Bounds: map[string]string{
			"quick":    "mergeShardInfo: one inductive step from an arbitrary stored view with two arbitrary updates; all integers full 64-bit; no loop",
			"thorough": "same as quick plus shardView.update over lists of <=3 updates on <=2 shard ids",
		},
		Outside: "membership maps are compared by identity tag (one symbolic byte); gossip transport and memberlist delegate code are not executed",
		Assumptions: []string{
			"Raft facts about announcements of one shard: one leader per term; one membership per configuration-change index",
			"stored-view invariant: LeaderID==0 implies Term==0 (views start as {ShardID} and Term is only written with a leader); shown preserved by the step",
		},
	}
}
