package main

// M1 extension for in-cluster snapshots (C08): sstable.Writer, DB.Ingest,
// DB.Checkpoint, and archive/tar as content-preserving containers.
//
// The *payload* formats of Pebble (SST blocks, manifests) and of tar (512-byte
// header records) are not encoded. What the models keep is the contract the
// regatta code relies on: an sstable written with ascending Sets and handed
// to Ingest delivers exactly those pairs; a checkpoint directory opened as a
// database has exactly the flushed content of the source; a tar stream
// delivers the (name, type, size, bytes) entries that were written, in order.
// The bytes the models emit have a concrete layout with symbolic content, so
// regatta's own framing code (header, length prefixes, copy loops, files)
// runs over them unchanged.

import (
	"fmt"
	"go/types"
	"path"
)

const (
	sstPkg = "github.com/cockroachdb/pebble/sstable"
	tarPkg = "archive/tar"
)

var sstMagic = []byte("MSST")

// serializeEnts: "MSST" n:2 { klen:2 k vlen:4 v }*
func (p *Path) serializeEnts(ents []pEntry) []*Term {
	c := p.ctx
	var out []*Term
	for _, b := range sstMagic {
		out = append(out, c.BV(uint64(b), 8))
	}
	le := func(v uint64, n int) {
		for i := 0; i < n; i++ {
			out = append(out, c.BV(v>>(8*uint(i))&0xff, 8))
		}
	}
	le(uint64(len(ents)), 2)
	for _, e := range ents {
		le(uint64(len(e.k)), 2)
		out = append(out, e.k...)
		vs, ok := e.v.([]Value)
		if !ok && e.v != nil {
			panic(unsupported{fmt.Sprintf("sstable model: value of %T", e.v)})
		}
		vt := p.sliceTerms(vs)
		le(uint64(len(vt)), 4)
		out = append(out, vt...)
	}
	return out
}

// parseEnts is the inverse; ok=false for anything that is not exactly one
// serialized table (wrong magic, truncated, trailing bytes).
func (p *Path) parseEnts(data []*Term) ([]pEntry, bool) {
	pos := 0
	num := func(n int) (uint64, bool) {
		if pos+n > len(data) {
			return 0, false
		}
		v := uint64(0)
		for i := 0; i < n; i++ {
			t := data[pos+i]
			if !t.IsConst() {
				panic(unsupported{"sstable model: symbolic length field in a table file"})
			}
			v |= t.K << (8 * uint(i))
		}
		pos += n
		return v, true
	}
	for _, b := range sstMagic {
		if pos >= len(data) {
			return nil, false
		}
		t := data[pos]
		if !t.IsConst() {
			panic(unsupported{"sstable model: symbolic magic in a table file"})
		}
		if byte(t.K) != b {
			return nil, false
		}
		pos++
	}
	n, ok := num(2)
	if !ok {
		return nil, false
	}
	var ents []pEntry
	for i := uint64(0); i < n; i++ {
		kl, ok := num(2)
		if !ok || pos+int(kl) > len(data) {
			return nil, false
		}
		k := append([]*Term(nil), data[pos:pos+int(kl)]...)
		pos += int(kl)
		vl, ok := num(4)
		if !ok || pos+int(vl) > len(data) {
			return nil, false
		}
		v := p.termsToSlice(append([]*Term(nil), data[pos:pos+int(vl)]...))
		pos += int(vl)
		ents = append(ents, pEntry{k: k, v: v})
	}
	if pos != len(data) {
		return nil, false
	}
	return ents, true
}

// parseEntsQuiet: parseEnts for durable images, which may legitimately be empty or partial.
func (p *Path) parseEntsQuiet(data []*Term) ([]pEntry, bool) {
	if len(data) == 0 {
		return nil, false
	}
	return p.parseEnts(data)
}

type pSST struct {
	w      Value
	ents   []pEntry
	closed bool
	est    *Term
}

type tarW struct {
	w      Value
	remain int
	closed bool
}

type tarR struct {
	r      Value
	remain int
	done   bool
}

// readFull reads exactly n bytes from the io.Reader r; the second result is
// nil-iface, io.EOF (nothing read) or io.ErrUnexpectedEOF / the reader's error.
func (p *Path) readFull(r Value, n int) ([]*Term, Value) {
	buf := make([]Value, n)
	off := 0
	for off < n {
		res := p.callMethod(r, "Read", buf[off:]).(Tuple)
		k := int(p.concreteInt(res[0], "Read count"))
		off += k
		if !isNilPtr(res[1]) {
			if off >= n {
				break
			}
			if p.isErr(res[1], "io", "EOF") {
				if off == 0 {
					return nil, res[1]
				}
				return nil, p.loadGlobalErr("io", "ErrUnexpectedEOF")
			}
			return nil, res[1]
		}
		if k == 0 {
			panic(unsupported{"reader returned 0, nil"})
		}
	}
	return p.sliceTerms(buf), Iface{}
}

// isErr: is v exactly the package-level error variable pkg.name?
func (p *Path) isErr(v Value, pkg, name string) bool {
	t := p.equalVals(types.Universe.Lookup("error").Type(), v, p.loadGlobalErr(pkg, name))
	return t.IsTrue()
}

func sameTerms(a, b []*Term) bool {
	if len(a) != len(b) {
		return false
	}
	for i := range a {
		if a[i] != b[i] {
			return false
		}
	}
	return true
}

func leTerms(c *TermCtx, v uint64, n int) []*Term {
	out := make([]*Term, n)
	for i := 0; i < n; i++ {
		out[i] = c.BV(v>>(8*uint(i))&0xff, 8)
	}
	return out
}

func constLE(ts []*Term, what string) uint64 {
	v := uint64(0)
	for i, t := range ts {
		if !t.IsConst() {
			panic(unsupported{what + ": symbolic length field"})
		}
		v |= t.K << (8 * uint(i))
	}
	return v
}

func init() {
	// ------------------------------------------------------------ sstable.Writer
	reg(sstPkg+".NewWriter", func(p *Path, _ *frame, a []Value) Value {
		return &NativeObj{Kind: "sstable.Writer", T: types.NewPointer(p.eng.namedType(sstPkg, "Writer")), Data: &pSST{w: a[0]}}
	})
	// the table format options do not matter to the model writer
	reg("(*"+pebblePkg+".Options).MakeWriterOptions", func(p *Path, _ *frame, a []Value) Value {
		return p.zero(p.eng.namedType(sstPkg, "WriterOptions"))
	})
	W := "(*" + sstPkg + ".Writer)."
	reg(W+"Set", func(p *Path, _ *frame, a []Value) Value {
		s := pData[*pSST](p, a[0], "sstable.Writer.Set")
		if s.closed {
			return p.newError("pebble: sstable writer closed")
		}
		k := p.keyTerms(a[1])
		if n := len(s.ents); n > 0 {
			if !p.branch(p.bytesLess(s.ents[n-1].k, k)) {
				return p.newError("pebble: keys must be added in strictly increasing order")
			}
		}
		s.ents = append(s.ents, pEntry{k: k, v: p.valCopy(a[2])})
		return Iface{}
	})
	// EstimatedSize: an arbitrary non-decreasing value (with verif.SSTCuts(true)),
	// so a size-triggered cut can fall after any Set; otherwise 0 (no cut, as
	// natively with small data).
	reg(W+"EstimatedSize", func(p *Path, _ *frame, a []Value) Value {
		s := pData[*pSST](p, a[0], "sstable.Writer.EstimatedSize")
		if !p.sstCuts {
			return p.ctx.BV(0, 64)
		}
		t := p.fresh("sstsize", 64)
		if s.est != nil {
			p.assume(p.ctx.Ule(s.est, t))
		}
		s.est = t
		return t
	})
	reg(W+"Close", func(p *Path, _ *frame, a []Value) Value {
		s := pData[*pSST](p, a[0], "sstable.Writer.Close")
		if s.closed {
			return p.newError("pebble: sstable writer already closed")
		}
		s.closed = true
		res := p.callMethod(s.w, "Write", p.termsToSlice(p.serializeEnts(s.ents))).(Tuple)
		if !isNilPtr(res[1]) {
			return res[1]
		}
		if e := p.callMethod(s.w, "Sync"); !isNilPtr(e) {
			return e
		}
		return p.callMethod(s.w, "Close")
	})
	reg(verifPkg+".SSTCuts", func(p *Path, _ *frame, a []Value) Value {
		p.sstCuts = p.branch(p.boolArg(a[0]))
		return nil
	})

	// ------------------------------------------------------------ DB.Ingest / DB.Checkpoint
	P := "(*" + pebblePkg + "."
	reg(P+"DB).Ingest", func(p *Path, _ *frame, a []Value) Value {
		db := pData[*pDB](p, a[0], "DB.Ingest")
		if db.closed {
			p.pebblePanicClosed()
		}
		if db.fs == nil {
			panic(unsupported{"DB.Ingest on a database without a modelled file system"})
		}
		files, _ := a[1].([]Value)
		var tables [][]pEntry
		var names []string
		for _, fv := range files {
			name, ok := p.concreteString(fv)
			if !ok {
				panic(unsupported{"DB.Ingest: symbolic file name"})
			}
			n := db.fs.lookup(name)
			if n == nil || n.dir {
				return p.fsErr("NotExist", name)
			}
			ents, ok := p.parseEnts(n.data)
			if !ok {
				return p.newError("pebble: invalid table (bad magic number)")
			}
			if db.ino != nil && !sameTerms(n.data, n.durData) {
				// Ingest links the file and records it in the (synced) manifest, but does
				// not sync the file's content: that is the caller's duty
				db.ino.dbDurBroken = true
			}
			tables = append(tables, ents)
			names = append(names, name)
		}
		// external tables must not overlap each other
		var prevLast []*Term
		for _, t := range tables {
			if len(t) == 0 {
				continue
			}
			if prevLast != nil && !p.branch(p.bytesLess(prevLast, t[0].k)) {
				// Pebble sorts the tables first; regatta writes them in key order, so
				// an out-of-order or overlapping pair is reported as Pebble would an overlap
				return p.newError("pebble: external sstables have overlapping ranges")
			}
			prevLast = t[len(t)-1].k
		}
		dur := db.ents
		if db.ino != nil {
			dur = db.ino.dbDur
		}
		for _, t := range tables {
			for _, e := range t {
				db.ents = applyOp(p, db.ents, pOp{kind: 0, k: e.k, v: e.v})
				if db.ino != nil {
					dur = applyOp(p, dur, pOp{kind: 0, k: e.k, v: e.v})
				}
			}
		}
		db.gen++
		db.syncInode()
		if db.ino != nil {
			db.ino.dbDur = dur // ingested tables are synced files recorded in a synced manifest
		}
		// the source files are moved into the database
		for _, name := range names {
			if par, base := db.fs.parentOf(name); par != nil {
				delete(par.ents, base)
				delete(par.durEnts, base)
			}
		}
		return Iface{}
	})
	reg(P+"DB).Checkpoint", func(p *Path, _ *frame, a []Value) Value {
		db := pData[*pDB](p, a[0], "DB.Checkpoint")
		if db.closed {
			p.pebblePanicClosed()
		}
		if db.fs == nil {
			panic(unsupported{"DB.Checkpoint on a database without a modelled file system"})
		}
		dir, ok := p.concreteString(a[1])
		if !ok {
			panic(unsupported{"DB.Checkpoint: symbolic directory"})
		}
		if db.fs.lookup(dir) != nil {
			return p.fsErr("Exist", dir)
		}
		n := db.fs.mkdirAll(dir)
		if n == nil {
			return p.newError("checkpoint: not a directory")
		}
		// with the WAL disabled a checkpoint holds what has been flushed
		content := db.flushed
		if db.ino != nil {
			content = db.ino.dbDur
		}
		n.hasDB, n.dbCur, n.dbDur = true, content, content
		data := p.serializeEnts(content)
		f := &fsInode{data: data, durData: append([]*Term(nil), data...)}
		n.ents["MODELDB"] = f
		n.durEnts["MODELDB"] = f
		if par, base := db.fs.parentOf(dir); par != nil {
			par.durEnts[base] = n // Pebble syncs the checkpoint's parent directory
		}
		return Iface{}
	})

	// ------------------------------------------------------------ archive/tar
	hdrT := func(p *Path) types.Type { return p.eng.namedType(tarPkg, "Header") }
	reg(tarPkg+".NewWriter", func(p *Path, _ *frame, a []Value) Value {
		return &NativeObj{Kind: "tar.Writer", T: types.NewPointer(p.eng.namedType(tarPkg, "Writer")), Data: &tarW{w: a[0]}}
	})
	reg(tarPkg+".NewReader", func(p *Path, _ *frame, a []Value) Value {
		return &NativeObj{Kind: "tar.Reader", T: types.NewPointer(p.eng.namedType(tarPkg, "Reader")), Data: &tarR{r: a[0]}}
	})
	reg(tarPkg+".FileInfoHeader", func(p *Path, _ *frame, a []Value) Value {
		fi := a[0]
		cell := new(Value)
		*cell = p.zero(hdrT(p))
		isDir := p.callMethod(fi, "IsDir").(*Term)
		p.setField((*cell).(Struct), hdrT(p), "Name", p.callMethod(fi, "Name"))
		if isDir.IsTrue() {
			p.setField((*cell).(Struct), hdrT(p), "Typeflag", p.ctx.BV('5', 8))
			p.setField((*cell).(Struct), hdrT(p), "Mode", p.ctx.BV(0o755, 64))
		} else {
			p.setField((*cell).(Struct), hdrT(p), "Typeflag", p.ctx.BV('0', 8))
			p.setField((*cell).(Struct), hdrT(p), "Mode", p.ctx.BV(0o644, 64))
			p.setField((*cell).(Struct), hdrT(p), "Size", p.callMethod(fi, "Size"))
		}
		return Tuple{cell, Iface{}}
	})
	TW := "(*" + tarPkg + ".Writer)."
	reg(TW+"WriteHeader", func(p *Path, _ *frame, a []Value) Value {
		w := pData[*tarW](p, a[0], "tar.Writer.WriteHeader")
		if w.closed {
			return p.loadGlobalErr(tarPkg, "ErrWriteAfterClose")
		}
		if w.remain != 0 {
			return p.newError("archive/tar: missed writing bytes of the previous entry")
		}
		h := a[1].(*Value)
		name, ok := p.concreteString(p.structField(*h, hdrT(p), "Name"))
		if !ok {
			panic(unsupported{"tar model: symbolic entry name"})
		}
		size := p.concreteInt(p.structField(*h, hdrT(p), "Size"), "tar size")
		tf := p.asTerm(p.structField(*h, hdrT(p), "Typeflag"), "tar typeflag")
		if tf.IsConst() && tf.K == '5' {
			size = 0
		}
		c := p.ctx
		out := []*Term{c.BV('T', 8), tf}
		out = append(out, leTerms(c, uint64(len(name)), 2)...)
		for i := 0; i < len(name); i++ {
			out = append(out, c.BV(uint64(name[i]), 8))
		}
		out = append(out, leTerms(c, uint64(size), 8)...)
		w.remain = int(size)
		res := p.callMethod(w.w, "Write", p.termsToSlice(out)).(Tuple)
		return res[1]
	})
	reg(TW+"Write", func(p *Path, _ *frame, a []Value) Value {
		w := pData[*tarW](p, a[0], "tar.Writer.Write")
		if w.closed {
			return Tuple{p.ctx.BV(0, 64), p.loadGlobalErr(tarPkg, "ErrWriteAfterClose")}
		}
		b, _ := a[1].([]Value)
		tooLong := false
		if len(b) > w.remain {
			b, tooLong = b[:w.remain], true
		}
		n := 0
		if len(b) > 0 {
			res := p.callMethod(w.w, "Write", b).(Tuple)
			n = int(p.concreteInt(res[0], "Write count"))
			w.remain -= n
			if !isNilPtr(res[1]) {
				return Tuple{p.ctx.BV(uint64(n), 64), res[1]}
			}
		}
		if tooLong {
			return Tuple{p.ctx.BV(uint64(n), 64), p.loadGlobalErr(tarPkg, "ErrWriteTooLong")}
		}
		return Tuple{p.ctx.BV(uint64(n), 64), Iface{}}
	})
	reg(TW+"Close", func(p *Path, _ *frame, a []Value) Value {
		w := pData[*tarW](p, a[0], "tar.Writer.Close")
		if w.closed {
			return Iface{}
		}
		w.closed = true
		if w.remain != 0 {
			return p.newError("archive/tar: missed writing bytes of the last entry")
		}
		res := p.callMethod(w.w, "Write", p.termsToSlice([]*Term{p.ctx.BV('E', 8)})).(Tuple)
		return res[1]
	})
	TR := "(*" + tarPkg + ".Reader)."
	reg(TR+"Next", func(p *Path, _ *frame, a []Value) Value {
		r := pData[*tarR](p, a[0], "tar.Reader.Next")
		nilHdr := (*Value)(nil)
		if r.done {
			return Tuple{nilHdr, p.loadGlobalErr("io", "EOF")}
		}
		if r.remain > 0 { // skip what is left of the current entry
			if _, err := p.readFull(r.r, r.remain); !isNilPtr(err) {
				return Tuple{nilHdr, p.loadGlobalErr("io", "ErrUnexpectedEOF")}
			}
			r.remain = 0
		}
		tag, err := p.readFull(r.r, 1)
		if !isNilPtr(err) {
			return Tuple{nilHdr, err} // io.EOF at an entry boundary
		}
		if !tag[0].IsConst() {
			panic(unsupported{"tar model: symbolic record tag"})
		}
		switch tag[0].K {
		case 'E':
			r.done = true
			return Tuple{nilHdr, p.loadGlobalErr("io", "EOF")}
		case 'T':
		default:
			return Tuple{nilHdr, p.loadGlobalErr(tarPkg, "ErrHeader")}
		}
		fix, err := p.readFull(r.r, 3)
		if !isNilPtr(err) {
			return Tuple{nilHdr, p.loadGlobalErr("io", "ErrUnexpectedEOF")}
		}
		nl := int(constLE(fix[1:3], "tar model"))
		rest, err := p.readFull(r.r, nl+8)
		if !isNilPtr(err) {
			return Tuple{nilHdr, p.loadGlobalErr("io", "ErrUnexpectedEOF")}
		}
		size := constLE(rest[nl:], "tar model")
		cell := new(Value)
		*cell = p.zero(hdrT(p))
		p.setField((*cell).(Struct), hdrT(p), "Typeflag", fix[0])
		p.setField((*cell).(Struct), hdrT(p), "Name", normStr(SymStr(rest[:nl])))
		p.setField((*cell).(Struct), hdrT(p), "Size", p.ctx.BV(size, 64))
		r.remain = int(size)
		return Tuple{cell, Iface{}}
	})
	reg(TR+"Read", func(p *Path, _ *frame, a []Value) Value {
		r := pData[*tarR](p, a[0], "tar.Reader.Read")
		b, _ := a[1].([]Value)
		if r.remain == 0 {
			return Tuple{p.ctx.BV(0, 64), p.loadGlobalErr("io", "EOF")}
		}
		if len(b) > r.remain {
			b = b[:r.remain]
		}
		if len(b) == 0 {
			return Tuple{p.ctx.BV(0, 64), Iface{}}
		}
		res := p.callMethod(r.r, "Read", b).(Tuple)
		n := int(p.concreteInt(res[0], "Read count"))
		r.remain -= n
		if !isNilPtr(res[1]) && p.isErr(res[1], "io", "EOF") && r.remain > 0 {
			return Tuple{p.ctx.BV(uint64(n), 64), p.loadGlobalErr("io", "ErrUnexpectedEOF")}
		}
		if r.remain == 0 {
			return Tuple{p.ctx.BV(uint64(n), 64), Iface{}}
		}
		return Tuple{p.ctx.BV(uint64(n), 64), res[1]}
	})

	// ------------------------------------------------------------ encoding/binary.Read / Write
	// (the library dispatches through reflection for named array types; the
	// fixed-size cases regatta uses are summarised: unsigned integers and byte arrays)
	orderBig := func(p *Path, v Value) bool {
		itf, ok := v.(Iface)
		if !ok || itf.T == nil {
			panic(unsupported{"binary: nil byte order"})
		}
		switch itf.T.String() {
		case "encoding/binary.littleEndian":
			return false
		case "encoding/binary.bigEndian":
			return true
		}
		panic(unsupported{"binary: byte order " + itf.T.String()})
	}
	reg("encoding/binary.Write", func(p *Path, _ *frame, a []Value) Value {
		big := orderBig(p, a[1])
		d, ok := a[2].(Iface)
		if !ok || d.T == nil {
			panic(unsupported{"binary.Write of a nil value"})
		}
		var out []*Term
		switch u := d.T.Underlying().(type) {
		case *types.Basic:
			t := p.asTerm(d.V, "binary.Write")
			n := int(t.W / 8)
			if u.Info()&types.IsInteger == 0 || n == 0 {
				panic(unsupported{"binary.Write of " + d.T.String()})
			}
			for i := 0; i < n; i++ {
				out = append(out, p.ctx.Extract(t, uint8(8*i), 8))
			}
			if big {
				for i, j := 0, len(out)-1; i < j; i, j = i+1, j-1 {
					out[i], out[j] = out[j], out[i]
				}
			}
		case *types.Array:
			if b, ok := u.Elem().Underlying().(*types.Basic); !ok || b.Kind() != types.Uint8 {
				panic(unsupported{"binary.Write of " + d.T.String()})
			}
			arr, _ := d.V.(Array)
			for i := 0; i < int(u.Len()); i++ {
				if i < len(arr) && arr[i] != nil {
					out = append(out, p.asTerm(arr[i], "binary.Write"))
				} else {
					out = append(out, p.ctx.BV(0, 8))
				}
			}
		default:
			panic(unsupported{"binary.Write of " + d.T.String()})
		}
		res := p.callMethod(a[0], "Write", p.termsToSlice(out)).(Tuple)
		return res[1]
	})
	reg("encoding/binary.Read", func(p *Path, _ *frame, a []Value) Value {
		big := orderBig(p, a[1])
		d, ok := a[2].(Iface)
		if !ok || d.T == nil {
			panic(unsupported{"binary.Read into a nil value"})
		}
		pt, ok := d.T.Underlying().(*types.Pointer)
		if !ok {
			panic(unsupported{"binary.Read into " + d.T.String()})
		}
		cell, _ := d.V.(*Value)
		if cell == nil {
			panic(unsupported{"binary.Read into a nil pointer"})
		}
		switch u := pt.Elem().Underlying().(type) {
		case *types.Basic:
			if u.Info()&types.IsInteger == 0 {
				panic(unsupported{"binary.Read into " + d.T.String()})
			}
			n := int(types.SizesFor("gc", "amd64").Sizeof(u))
			bs, err := p.readFull(a[0], n)
			if !isNilPtr(err) {
				return err
			}
			var r *Term
			for i := 0; i < n; i++ {
				x := bs[i]
				if big {
					x = bs[n-1-i]
				}
				if r == nil {
					r = x
				} else {
					r = p.ctx.Concat(x, r)
				}
			}
			*cell = r
		case *types.Array:
			if b, ok := u.Elem().Underlying().(*types.Basic); !ok || b.Kind() != types.Uint8 {
				panic(unsupported{"binary.Read into " + d.T.String()})
			}
			bs, err := p.readFull(a[0], int(u.Len()))
			if !isNilPtr(err) {
				return err
			}
			arr := make(Array, len(bs))
			for i, t := range bs {
				arr[i] = t
			}
			*cell = arr
		default:
			panic(unsupported{"binary.Read into " + d.T.String()})
		}
		return Iface{}
	})
	_ = path.Base
}
