package main

// context.Context model: contexts are engine objects with a Done channel
// (closed on cancel) and an error; deadlines are flags chosen by the harness
// (time does not pass by itself: verif.Expire(ctx) makes a deadline pass).

import (
	"go/types"
)

type ctxObj struct {
	parent      *ctxObj
	done        *Chan
	err         Value // Iface
	hasDeadline bool
	deadline    Value // time.Time; nil = the end of the modelled time window (never passes)
	name        string
}

func (p *Path) ctxType() types.Type {
	return types.NewPointer(p.eng.namedType("context", "cancelCtx"))
}

func (p *Path) newCtx(parent *ctxObj, withDone, deadline bool) Value {
	c := &ctxObj{parent: parent, hasDeadline: deadline || (parent != nil && parent.hasDeadline), err: Iface{}}
	if parent != nil {
		c.deadline = parent.deadline
	}
	if withDone {
		c.done = p.makeChanOf(types.NewStruct(nil, nil))
		c.done.name = "ctx.Done"
	} else if parent != nil {
		c.done = parent.done
	}
	var no *NativeObj
	no = &NativeObj{Kind: "context", T: p.ctxType(), Data: c, Methods: map[string]*NativeFunc{
		"Deadline": {Name: "ctx.Deadline", F: func(p *Path, g *Goroutine, a []Value) Value {
			if !c.hasDeadline {
				return Tuple{p.zero(p.eng.namedType("time", "Time")), p.ctx.F}
			}
			if c.deadline != nil {
				return Tuple{copyVal(c.deadline), p.ctx.T}
			}
			return Tuple{p.timeAt(p.ctx.BV(1<<36+1<<35, 64)), p.ctx.T}
		}},
		"Done": {Name: "ctx.Done", F: func(p *Path, g *Goroutine, a []Value) Value {
			if c.done == nil {
				return (*Chan)(nil)
			}
			return c.done
		}},
		"Err": {Name: "ctx.Err", F: func(p *Path, g *Goroutine, a []Value) Value {
			for x := c; x != nil; x = x.parent {
				if !isNilPtr(x.err) {
					return x.err
				}
			}
			return Iface{}
		}},
		"Value": {Name: "ctx.Value", F: func(p *Path, g *Goroutine, a []Value) Value { return Iface{} }},
	}}
	return Iface{T: no.T, V: no}
}

func (p *Path) makeChanOf(elem types.Type) *Chan {
	p.nextID++
	return &Chan{id: p.nextID, cap: 0, elemT: elem}
}

func (p *Path) ctxOf(v Value) *ctxObj {
	itf, ok := v.(Iface)
	if !ok || itf.T == nil {
		return nil
	}
	if no, ok := itf.V.(*NativeObj); ok {
		if c, ok := no.Data.(*ctxObj); ok {
			return c
		}
	}
	panic(unsupported{"context implemented outside the context model"})
}

func (p *Path) ctxCancel(c *ctxObj, err Value) {
	if !isNilPtr(c.err) {
		return
	}
	c.err = err
	if c.done != nil && !c.done.closed {
		c.done.closed = true
	}
}

func init() {
	reg("context.Background", func(p *Path, _ *frame, a []Value) Value { return p.newCtx(nil, false, false) })
	reg("context.TODO", func(p *Path, _ *frame, a []Value) Value { return p.newCtx(nil, false, false) })
	withCancel := func(deadline bool) intrinsic {
		return func(p *Path, _ *frame, a []Value) Value {
			parent := p.ctxOf(a[0])
			cv := p.newCtx(parent, true, deadline)
			c := p.ctxOf(cv)
			if deadline && len(a) > 1 {
				switch d := a[1].(type) {
				case *Term: // WithTimeout: the deadline is an instant of the symbolic clock plus d
					if d.IsConst() && (parent == nil || parent.deadline == nil) {
						now := p.now().(Struct)
						var ext *Term
						for _, f := range now {
							if t, ok := f.(*Term); ok && !t.IsConst() {
								ext = t
							}
						}
						c.deadline = p.timeAt(p.ctx.Add(ext, p.ctx.BV(uint64(int64(d.K)/1e9), 64)))
					}
				case Struct: // WithDeadline
					if parent == nil || parent.deadline == nil {
						c.deadline = d
					}
				}
			}
			if parent != nil && parent.done != nil {
				// a child created from a cancellable parent shares the parent's fate:
				// approximate by sharing the Done channel
				c.done = parent.done
			}
			cancel := &NativeFunc{Name: "context.cancel", F: func(p *Path, g *Goroutine, args []Value) Value {
				p.ctxCancel(c, p.sentinelError("context.Canceled"))
				return nil
			}}
			return Tuple{cv, cancel}
		}
	}
	reg("context.WithCancel", withCancel(false))
	reg("context.WithTimeout", withCancel(true))
	reg("context.WithDeadline", withCancel(true))
	// verif.Cancel(ctx) / verif.Expire(ctx): the environment cancels a context / lets its deadline pass
	reg(verifPkg+".Cancel", func(p *Path, _ *frame, a []Value) Value {
		p.ctxCancel(p.ctxOf(a[0]), p.sentinelError("context.Canceled"))
		return nil
	})
	reg(verifPkg+".Expire", func(p *Path, _ *frame, a []Value) Value {
		p.ctxCancel(p.ctxOf(a[0]), p.sentinelError("context.DeadlineExceeded"))
		return nil
	})
	reg(verifPkg+".NewContext", func(p *Path, _ *frame, a []Value) Value {
		return p.newCtx(nil, true, p.branch(p.boolArg(a[0])))
	})
}
