package main

import (
	"fmt"
	"go/constant"
	"go/token"
	"go/types"
	"os"
	"slices"
	"strings"
	"sync"
	"sync/atomic"

	"golang.org/x/tools/go/ssa"
)

type deferred struct {
	fn   Value
	args []Value
	tail *deferred
}

type frame struct {
	p         *Path
	caller    *frame
	fn        *ssa.Function
	block     *ssa.BasicBlock
	prevBlock *ssa.BasicBlock
	env       map[ssa.Value]Value
	locals    []Value
	defers    *deferred
	result    Value
	panicking bool
	panicV    targetPanic
	phitemps  []Value
	backEdges map[int]int
}

func (fr *frame) get(v ssa.Value) Value {
	switch v := v.(type) {
	case *ssa.Const:
		return fr.p.constVal(v)
	case *ssa.Global:
		return fr.p.globalAddr(v)
	case *ssa.Function:
		return v
	case *ssa.Builtin:
		return v
	case nil:
		return nil
	}
	if r, ok := fr.env[v]; ok {
		return r
	}
	panic(engineError{fmt.Sprintf("get: no value for %T %s in %s", v, v.Name(), fr.fn)})
}

func (p *Path) constVal(c *ssa.Const) Value {
	t := c.Type()
	if c.Value == nil {
		return p.zero(t)
	}
	switch u := t.Underlying().(type) {
	case *types.Basic:
		switch {
		case u.Info()&types.IsBoolean != 0:
			return p.ctx.Bool(constant.BoolVal(c.Value))
		case u.Info()&types.IsInteger != 0:
			w := intWidth(u)
			if i, ok := constant.Int64Val(constant.ToInt(c.Value)); ok {
				return p.ctx.BV(uint64(i), w)
			}
			if i, ok := constant.Uint64Val(constant.ToInt(c.Value)); ok {
				return p.ctx.BV(i, w)
			}
			panic(unsupported{"integer constant out of range"})
		case u.Info()&types.IsString != 0:
			if c.Value.Kind() == constant.String {
				return constant.StringVal(c.Value)
			}
			// string(rune) constant
			if i, ok := constant.Int64Val(c.Value); ok {
				return string(rune(i))
			}
		case u.Info()&types.IsFloat != 0:
			f, _ := constant.Float64Val(c.Value)
			return f
		}
	case *types.TypeParam:
		panic(unsupported{"constant of type parameter type"})
	}
	panic(unsupported{fmt.Sprintf("constant %v of type %v", c.Value, t)})
}

// ------------------------------------------------------------------ globals

func (p *Path) globalAddr(g *ssa.Global) *Value {
	if a, ok := p.globals[g]; ok {
		return a
	}
	pkg := g.Pkg
	et := g.Type().(*types.Pointer).Elem()
	cell := new(Value)
	p.globals[g] = cell
	if p.eng.allowedPkg(pkg.Pkg.Path()) {
		*cell = p.zero(et)
		p.ensureInit(pkg)
		return cell
	}
	// a package whose code is not interpreted: sentinels for errors, poison otherwise
	full := pkg.Pkg.Path() + "." + g.Name()
	if isErrorType(et) {
		*cell = p.sentinelError(full)
	} else if v, ok := p.eng.globalModel(p, full, et); ok {
		*cell = v
	} else {
		*cell = Poison{"uninitialised global " + full}
	}
	return cell
}

func isErrorType(t types.Type) bool {
	n, ok := t.(*types.Named)
	return ok && n.Obj().Pkg() == nil && n.Obj().Name() == "error"
}

var sentinelAlias = map[string]string{
	"github.com/cockroachdb/pebble.ErrNotFound":   "github.com/cockroachdb/pebble/internal/base.ErrNotFound",
	"github.com/cockroachdb/pebble.ErrNotIndexed": "github.com/cockroachdb/pebble.ErrNotIndexed",
}

// sentinelError materialises a distinct error object for an external
// package-level error variable (all that == / errors.Is can observe).
func (p *Path) sentinelError(full string) Value {
	if a, ok := sentinelAlias[full]; ok {
		full = a
	}
	if v, ok := p.errs[full]; ok {
		return v
	}
	v := p.newError(full)
	p.errs[full] = v
	return v
}

// newError builds an *errors.errorString with the given message.
func (p *Path) newError(msg string) Value {
	cell := new(Value)
	*cell = Struct{msg}
	return Iface{T: p.eng.errorStringPtrT, V: cell}
}

// ensureInit runs the package initialiser of an interpreted package once per
// path, tolerantly (unsupported computations poison their result) and
// without descending into the initialisers of imported packages (those run
// lazily when first touched).
func (p *Path) ensureInit(pkg *ssa.Package) {
	key := "init:" + pkg.Pkg.Path()
	if _, ok := p.objs[key]; ok {
		return
	}
	p.objs[key] = true
	if !p.eng.allowedPkg(pkg.Pkg.Path()) {
		return
	}
	initFn := pkg.Func("init")
	if initFn == nil || initFn.Blocks == nil {
		return
	}
	saved := p.tolerant
	p.tolerant = true
	s0 := p.steps
	defer func() {
		p.tolerant = saved
		v, _ := initSteps.LoadOrStore(pkg.Pkg.Path(), new(int64))
		atomic.AddInt64(v.(*int64), int64(p.steps-s0))
	}()
	p.callSSA(nil, initFn, nil, nil)
}

// ------------------------------------------------------------------ calls

func (p *Path) call(caller *frame, fnv Value, args []Value) Value {
	switch fn := fnv.(type) {
	case *ssa.Function:
		if fn == nil {
			p.goPanicRuntime("invalid memory address or nil pointer dereference (nil func)")
		}
		return p.callSSA(caller, fn, args, nil)
	case *Closure:
		if fn == nil {
			p.goPanicRuntime("invalid memory address or nil pointer dereference (nil func)")
		}
		return p.callSSA(caller, fn.Fn, args, fn.Env)
	case *ssa.Builtin:
		return p.callBuiltin(caller, fn, args)
	case *NativeFunc:
		return fn.F(p, p.cur, args)
	case Poison:
		panic(unsupported{"call of poisoned func: " + fn.Why})
	}
	panic(engineError{fmt.Sprintf("cannot call %T", fnv)})
}

var initSteps sync.Map
var traceCalls = os.Getenv("SYMGO_TRACE_CALLS") != ""
var traceFn = os.Getenv("SYMGO_TRACE_FN")

// noopResult: zero values, except that interface results get a non-nil
// object whose methods all do nothing (so `gauge.Set(x)` on a metric obtained
// from a no-op constructor does not trip over a nil interface).
func (p *Path) noopResult(res *types.Tuple) Value {
	one := func(t types.Type) Value {
		if _, ok := t.Underlying().(*types.Interface); ok && !isErrorType(t) {
			return Iface{T: types.NewPointer(types.NewStruct(nil, nil)), V: &NativeObj{Kind: "noop"}}
		}
		return p.zero(t)
	}
	if res.Len() == 1 {
		return one(res.At(0).Type())
	}
	tu := make(Tuple, res.Len())
	for i := range tu {
		tu[i] = one(res.At(i).Type())
	}
	return tu
}

var noopPkgPrefixes = []string{
	"go.uber.org/zap", "github.com/prometheus/client_golang", "github.com/VictoriaMetrics/metrics",
	"github.com/armon/go-metrics", "github.com/prometheus/client_model",
}

func noopPkg(path string) bool {
	for _, p := range noopPkgPrefixes {
		if path == p || strings.HasPrefix(path, p+"/") {
			return true
		}
	}
	return false
}

func funcName(fn *ssa.Function) string {
	return fn.String()
}

func (p *Path) callSSA(caller *frame, fn *ssa.Function, args []Value, env []Value) Value {
	name := funcName(fn)
	if fn.Parent() == nil {
		if b, ok := p.binds[name]; ok {
			return p.call(caller, b, args)
		}
		if in, ok := intrinsics[name]; ok {
			p.res.Funcs[fn] = true
			return in(p, caller, args)
		}
		if o := fn.Origin(); o != nil {
			if in, ok := intrinsics[funcName(o)]; ok {
				return in(p, caller, args)
			}
		}
		if fn.Synthetic == "package initializer" && caller != nil {
			return nil // imported package initialisers run lazily
		}
		// (*regattapb.T).Reset: `*x = T{}` plus protoimpl bookkeeping that nothing interpreted reads
		if strings.HasPrefix(name, "(*"+regattaMod+"/regattapb.") && strings.HasSuffix(name, ").Reset") && len(args) == 1 {
			if ptr, ok := args[0].(*Value); ok && ptr != nil {
				*ptr = p.zero(fn.Signature.Recv().Type().(*types.Pointer).Elem())
			}
			return nil
		}
	}
	pkgPath := ""
	if pk := fn.Package(); pk != nil {
		pkgPath = pk.Pkg.Path()
	} else if o := fn.Origin(); o != nil && o.Package() != nil {
		pkgPath = o.Package().Pkg.Path()
	} else if fn.Parent() != nil {
		for f := fn; f != nil; f = f.Parent() {
			if f.Package() != nil {
				pkgPath = f.Package().Pkg.Path()
				break
			}
		}
	}
	if pkgPath != "" && !p.eng.allowedPkg(pkgPath) && fn.Synthetic == "" {
		if noopPkg(pkgPath) {
			// M7: logging / metrics: no effect, zero results
			res := fn.Signature.Results()
			if res.Len() == 0 {
				return nil
			}
			return p.noopResult(res)
		}
		panic(unsupported{"callee outside interpreted packages (no model): " + name})
	}
	if fn.Blocks == nil {
		// interpreted packages are built eagerly at load time (building
		// lazily would race with other workers reading the blocks)
		panic(unsupported{"no body for function: " + name})
	}
	if pkgPath != "" && fn.Synthetic != "package initializer" {
		if pk := p.eng.prog.ImportedPackage(pkgPath); pk != nil {
			p.ensureInit(pk)
		}
	}
	if fn.TypeParams().Len() > 0 && len(fn.TypeArgs()) == 0 {
		panic(unsupported{"call of uninstantiated generic " + name})
	}
	if traceCalls {
		var as []string
		for _, a := range args {
			as = append(as, valString(a))
		}
		fmt.Fprintf(os.Stderr, "%*sCALL %s(%s)\n", p.depth, "", name, strings.Join(as, ", "))
	}
	p.depth++
	if p.depth > p.eng.maxDepth {
		panic(unwindFailure{"call depth exceeded in " + name})
	}
	defer func() { p.depth-- }()
	p.res.Funcs[fn] = true

	fr := &frame{p: p, caller: caller, fn: fn}
	fr.env = make(map[ssa.Value]Value, 16)
	fr.block = fn.Blocks[0]
	fr.locals = make([]Value, len(fn.Locals))
	for i, l := range fn.Locals {
		fr.locals[i] = p.zero(l.Type().(*types.Pointer).Elem())
		fr.env[l] = &fr.locals[i]
	}
	if len(args) != len(fn.Params) {
		panic(engineError{fmt.Sprintf("call %s: %d args for %d params", name, len(args), len(fn.Params))})
	}
	for i, pa := range fn.Params {
		fr.env[pa] = args[i]
	}
	for i, fv := range fn.FreeVars {
		fr.env[fv] = env[i]
	}
	for fr.block != nil {
		p.runFrame(fr)
	}
	return fr.result
}

func (p *Path) runFrame(fr *frame) {
	defer func() {
		if fr.block == nil {
			return
		}
		r := recover()
		tp, ok := r.(targetPanic)
		if !ok {
			panic(r)
		}
		fr.panicking = true
		fr.panicV = tp
		fr.runDefers()
		fr.block = fr.fn.Recover
		if fr.block == nil {
			// recovered in a function without named results: return zero values
			fr.result = p.zero(fr.fn.Signature.Results())
			if fr.fn.Signature.Results().Len() == 0 {
				fr.result = nil
			}
		}
	}()
	for {
		nonPhis := fr.executePhis()
		for _, instr := range nonPhis {
			p.steps++
			p.curFr = fr
			if p.steps > p.eng.maxSteps {
				panic(unwindFailure{"step budget exceeded in " + fr.fn.String()})
			}
			var k int
			if p.tolerant && fr.fn.Synthetic == "package initializer" {
				k = p.visitTolerant(fr, instr)
			} else {
				k = p.visitInstr(fr, instr)
			}
			if traceFn != "" && strings.Contains(fr.fn.String(), traceFn) {
				out := ""
				if v, ok := instr.(ssa.Value); ok {
					out = v.Name() + " = " + valString(fr.env[v])
				}
				fmt.Fprintf(os.Stderr, "   [%s] %s   => %s\n", fr.fn.Name(), instr.String(), out)
			}
			if k == kReturn {
				return
			}
		}
	}
}

const (
	kNext = iota
	kReturn
	kJump
)

func (p *Path) visitTolerant(fr *frame, instr ssa.Instruction) (k int) {
	defer func() {
		if r := recover(); r != nil {
			var why string
			switch x := r.(type) {
			case unsupported:
				why = x.msg
			case targetPanic:
				why = "panic during package init: " + panicString(x.v)
			default:
				panic(r)
			}
			if v, ok := instr.(ssa.Value); ok {
				fr.env[v] = Poison{why}
			}
			k = kNext
		}
	}()
	// generated protobuf packages initialise large descriptor byte arrays
	// element by element; nothing interpreted reads them (protoimpl is not
	// interpreted), so those element stores are skipped
	if st, ok := instr.(*ssa.Store); ok && fr.fn.Pkg != nil && fr.fn.Pkg.Pkg.Path() == regattaMod+"/regattapb" {
		if _, isElem := st.Addr.(*ssa.IndexAddr); isElem {
			return kNext
		}
	}
	// poison propagates through every instruction except plain moves
	switch instr.(type) {
	case *ssa.Store, *ssa.If, *ssa.Jump, *ssa.Return, *ssa.Phi:
	default:
		var ops [8]*ssa.Value
		for _, op := range instr.Operands(ops[:0]) {
			if *op == nil {
				continue
			}
			if _, isInstr := (*op).(ssa.Instruction); !isInstr {
				if _, isParam := (*op).(*ssa.Parameter); !isParam {
					continue
				}
			}
			if po, ok := fr.env[*op].(Poison); ok {
				if _, isExtract := instr.(*ssa.Extract); isExtract {
					fr.env[instr.(ssa.Value)] = po
					return kNext
				}
				panic(unsupported{po.Why})
			}
		}
	}
	return p.visitInstr(fr, instr)
}

func (fr *frame) executePhis() []ssa.Instruction {
	firstNonPhi := -1
	for i, instr := range fr.block.Instrs {
		if _, ok := instr.(*ssa.Phi); !ok {
			firstNonPhi = i
			break
		}
	}
	nonPhis := fr.block.Instrs[firstNonPhi:]
	if firstNonPhi > 0 {
		phis := fr.block.Instrs[:firstNonPhi]
		predIndex := slices.Index(fr.block.Preds, fr.prevBlock)
		fr.phitemps = fr.phitemps[:0]
		for _, phi := range phis {
			fr.phitemps = append(fr.phitemps, fr.get(phi.(*ssa.Phi).Edges[predIndex]))
		}
		for i, phi := range phis {
			fr.env[phi.(*ssa.Phi)] = fr.phitemps[i]
		}
	}
	return nonPhis
}

func (fr *frame) jump(to *ssa.BasicBlock) {
	fr.prevBlock, fr.block = fr.block, to
}

// countSymbolicBranch enforces the unwinding bound: a branch site whose
// condition is symbolic may be decided at most 'unwind' times per frame
// activation (loops with concrete control flow terminate as they do
// natively and are only limited by the step budget).
func (fr *frame) countSymbolicBranch() {
	if fr.backEdges == nil {
		fr.backEdges = map[int]int{}
	}
	fr.backEdges[fr.block.Index]++
	if fr.backEdges[fr.block.Index] > fr.p.unwind {
		panic(unwindFailure{fmt.Sprintf("symbolic branch in %s (block %d) decided more than %d times in one activation", fr.fn, fr.block.Index, fr.p.unwind)})
	}
	if len(fr.p.decs) > fr.p.eng.maxDecisions {
		panic(unwindFailure{fmt.Sprintf("more than %d decisions on one path (in %s)", fr.p.eng.maxDecisions, fr.fn)})
	}
}

func (fr *frame) runDefer(d *deferred) {
	var ok bool
	defer func() {
		if !ok {
			r := recover()
			tp, isTP := r.(targetPanic)
			if !isTP {
				panic(r)
			}
			fr.panicking = true
			fr.panicV = tp
		}
	}()
	fr.p.call(fr, d.fn, d.args)
	ok = true
}

func (fr *frame) runDefers() {
	for d := fr.defers; d != nil; d = d.tail {
		fr.runDefer(d)
	}
	fr.defers = nil
	if fr.panicking {
		panic(fr.panicV)
	}
}

func (p *Path) doRecover(caller *frame) Value {
	if caller != nil && !caller.panicking && caller.caller != nil && caller.caller.panicking {
		caller.caller.panicking = false
		v := caller.caller.panicV.v
		caller.caller.panicV = targetPanic{}
		return v
	}
	return Iface{}
}

func (p *Path) prepareCall(fr *frame, call *ssa.CallCommon) (Value, []Value) {
	v := fr.get(call.Value)
	var fn Value
	var args []Value
	if call.Method == nil {
		fn = v
	} else {
		recv, ok := v.(Iface)
		if !ok {
			if po, isP := v.(Poison); isP {
				panic(unsupported{"method call on poisoned value: " + po.Why})
			}
			panic(engineError{fmt.Sprintf("invoke on %T", v)})
		}
		if recv.T == nil {
			p.goPanicRuntime("invalid memory address or nil pointer dereference (method " + call.Method.Name() + " called on nil interface)")
		}
		if nm, ok := recv.V.(*NativeObj); ok && nm.Kind == "noop" {
			// an object handed out by a logging / metrics package: every method is a no-op
			sig := call.Method.Type().(*types.Signature)
			fn = &NativeFunc{Name: "noop." + call.Method.Name(), F: func(p *Path, g *Goroutine, a []Value) Value {
				if sig.Results().Len() == 0 {
					return nil
				}
				return p.noopResult(sig.Results())
			}}
			args = append(args, recv.V)
			for _, a := range call.Args {
				args = append(args, fr.get(a))
			}
			return fn, args
		}
		if nm, ok := recv.V.(*NativeObj); ok && nm.Methods != nil {
			if f, ok := nm.Methods[call.Method.Name()]; ok {
				fn = f
				args = append(args, recv.V)
				for _, a := range call.Args {
					args = append(args, fr.get(a))
				}
				return fn, args
			}
		}
		f := p.eng.prog.LookupMethod(recv.T, call.Method.Pkg(), call.Method.Name())
		if f == nil {
			panic(engineError{fmt.Sprintf("method set of %v lacks %s", recv.T, call.Method)})
		}
		fn = f
		args = append(args, recv.V)
	}
	for _, a := range call.Args {
		args = append(args, fr.get(a))
	}
	return fn, args
}

func (p *Path) posString(pos token.Pos) string {
	if pos == token.NoPos {
		return ""
	}
	ps := p.eng.prog.Fset.Position(pos)
	f := ps.Filename
	f = strings.TrimPrefix(f, "/repo/")
	return fmt.Sprintf("%s:%d", f, ps.Line)
}

func (p *Path) visitInstr(fr *frame, instr ssa.Instruction) int {
	switch instr := instr.(type) {
	case *ssa.DebugRef:
	case *ssa.UnOp:
		fr.env[instr] = p.unop(fr, instr, fr.get(instr.X))
	case *ssa.BinOp:
		fr.env[instr] = p.binop(instr.Op, instr.X.Type(), instr.Y.Type(), fr.get(instr.X), fr.get(instr.Y))
	case *ssa.Call:
		fn, args := p.prepareCall(fr, &instr.Call)
		fr.env[instr] = p.call(fr, fn, args)
	case *ssa.ChangeInterface:
		fr.env[instr] = fr.get(instr.X)
	case *ssa.ChangeType:
		fr.env[instr] = fr.get(instr.X)
	case *ssa.Convert:
		fr.env[instr] = p.conv(instr.Type(), instr.X.Type(), fr.get(instr.X))
	case *ssa.MultiConvert:
		fr.env[instr] = p.conv(instr.Type(), instr.X.Type(), fr.get(instr.X))
	case *ssa.SliceToArrayPointer:
		panic(unsupported{"SliceToArrayPointer"})
	case *ssa.MakeInterface:
		fr.env[instr] = Iface{T: instr.X.Type(), V: fr.get(instr.X)}
	case *ssa.Extract:
		t := fr.get(instr.Tuple)
		tu, ok := t.(Tuple)
		if !ok {
			if po, isP := t.(Poison); isP {
				fr.env[instr] = po
				break
			}
			panic(engineError{fmt.Sprintf("extract from %T in %s", t, fr.fn)})
		}
		fr.env[instr] = tu[instr.Index]
	case *ssa.Slice:
		fr.env[instr] = p.sliceOp(instr, fr.get(instr.X), fr.get(instr.Low), fr.get(instr.High), fr.get(instr.Max))
	case *ssa.Return:
		switch len(instr.Results) {
		case 0:
		case 1:
			fr.result = fr.get(instr.Results[0])
		default:
			res := make(Tuple, len(instr.Results))
			for i, r := range instr.Results {
				res[i] = fr.get(r)
			}
			fr.result = res
		}
		fr.block = nil
		return kReturn
	case *ssa.RunDefers:
		fr.runDefers()
	case *ssa.Panic:
		panic(targetPanic{fr.get(instr.X)})
	case *ssa.Send:
		p.chanSend(fr.get(instr.Chan), fr.get(instr.X))
	case *ssa.Store:
		p.store(fr.get(instr.Addr), fr.get(instr.Val))
	case *ssa.If:
		c, ok := fr.get(instr.Cond).(*Term)
		if !ok {
			panic(unsupported{"branch on poisoned/non-bool value"})
		}
		succ := 1
		if !c.IsConst() {
			fr.countSymbolicBranch()
			p.site = fr
		}
		if p.branch(c) {
			succ = 0
		}
		fr.jump(fr.block.Succs[succ])
		return kJump
	case *ssa.Jump:
		fr.jump(fr.block.Succs[0])
		return kJump
	case *ssa.Defer:
		fn, args := p.prepareCall(fr, &instr.Call)
		defers := &fr.defers
		if instr.DeferStack != nil {
			if into := fr.get(instr.DeferStack); into != nil {
				defers = into.(**deferred)
			}
		}
		*defers = &deferred{fn: fn, args: args, tail: *defers}
	case *ssa.Go:
		fn, args := p.prepareCall(fr, &instr.Call)
		p.goStart(fn, args)
	case *ssa.MakeChan:
		fr.env[instr] = p.makeChan(instr.Type(), int(p.concreteInt(fr.get(instr.Size), "chan size")))
	case *ssa.Alloc:
		t := instr.Type().(*types.Pointer).Elem()
		if instr.Heap {
			addr := new(Value)
			*addr = p.zero(t)
			fr.env[instr] = addr
		} else {
			addr := fr.env[instr].(*Value)
			*addr = p.zero(t)
		}
	case *ssa.MakeSlice:
		tElt := instr.Type().Underlying().(*types.Slice).Elem()
		lv, cv := fr.get(instr.Len), fr.get(instr.Cap)
		n := p.enumerate(lv, "make len")
		c := p.enumerate(cv, "make cap")
		if n < 0 || c < n {
			p.goPanicRuntime("makeslice: len out of range")
		}
		if c > 1<<26 {
			panic(unsupported{"makeslice: capacity too large for the engine"})
		}
		s := make([]Value, c)
		if !lazyZero(tElt) {
			for i := range s {
				s[i] = p.zero(tElt)
			}
		}
		fr.env[instr] = s[:n]
	case *ssa.MakeMap:
		mt := instr.Type().Underlying().(*types.Map)
		fr.env[instr] = &Map{KT: mt.Key(), VT: mt.Elem()}
	case *ssa.Range:
		fr.env[instr] = p.rangeIter(fr.get(instr.X), instr.X.Type())
	case *ssa.Next:
		fr.env[instr] = fr.get(instr.Iter).(rangeIter).next(p)
	case *ssa.FieldAddr:
		x := fr.get(instr.X)
		ptr, ok := x.(*Value)
		if !ok {
			if po, isP := x.(Poison); isP {
				panic(unsupported{"field of poisoned value: " + po.Why})
			}
			if isNilPtr(x) {
				p.goPanicRuntime("invalid memory address or nil pointer dereference")
			}
			panic(unsupported{fmt.Sprintf("FieldAddr on %T (model object of type %s)", x, instr.X.Type())})
		}
		if ptr == nil {
			p.goPanicRuntime("invalid memory address or nil pointer dereference")
		}
		if *ptr == nil {
			*ptr = p.zero(instr.X.Type().Underlying().(*types.Pointer).Elem())
		}
		st, ok := (*ptr).(Struct)
		if !ok {
			if po, isP := (*ptr).(Poison); isP {
				panic(unsupported{"field of poisoned value: " + po.Why})
			}
			panic(engineError{fmt.Sprintf("FieldAddr: cell holds %T in %s", *ptr, fr.fn)})
		}
		fr.env[instr] = &st[instr.Field]
	case *ssa.Field:
		x := fr.get(instr.X)
		st, ok := x.(Struct)
		if !ok {
			if po, isP := x.(Poison); isP {
				panic(unsupported{"field of poisoned value: " + po.Why})
			}
			panic(engineError{fmt.Sprintf("Field on %T", x)})
		}
		fr.env[instr] = copyVal(st[instr.Field])
	case *ssa.IndexAddr:
		fr.env[instr] = p.indexAddr(instr, fr.get(instr.X), fr.get(instr.Index))
	case *ssa.Index:
		fr.env[instr] = p.indexOp(instr, fr.get(instr.X), fr.get(instr.Index))
	case *ssa.Lookup:
		fr.env[instr] = p.lookup(instr, fr.get(instr.X), fr.get(instr.Index))
	case *ssa.MapUpdate:
		p.mapUpdate(fr.get(instr.Map), fr.get(instr.Key), fr.get(instr.Value))
	case *ssa.TypeAssert:
		fr.env[instr] = p.typeAssert(instr, fr.get(instr.X))
	case *ssa.MakeClosure:
		var bindings []Value
		for _, b := range instr.Bindings {
			bindings = append(bindings, fr.get(b))
		}
		fr.env[instr] = &Closure{instr.Fn.(*ssa.Function), bindings}
	case *ssa.Select:
		fr.env[instr] = p.selectOp(fr, instr)
	default:
		panic(unsupported{fmt.Sprintf("instruction %T", instr)})
	}
	return kNext
}

// ---------------------------------------------------------------- indexing

// indexIn turns an index term into a concrete index in [0,n), raising Go's
// out-of-range panic on the (feasible) out-of-range side.
func (p *Path) indexIn(idx Value, n int, what string) int {
	t, ok := idx.(*Term)
	if !ok {
		panic(unsupported{fmt.Sprintf("%s: index is %T", what, idx)})
	}
	t = p.ctx.Sext(t, 64)
	if t.IsConst() {
		i := int64(t.K)
		if i < 0 || i >= int64(n) {
			p.goPanicRuntime(fmt.Sprintf("index out of range [%d] with length %d", i, n))
		}
		return int(i)
	}
	inRange := p.ctx.Ult(t, p.ctx.BV(uint64(n), 64))
	if !p.branch(inRange) {
		p.goPanicRuntime(fmt.Sprintf("index out of range [symbolic] with length %d", n))
	}
	if n > p.eng.maxFan {
		panic(unsupported{fmt.Sprintf("%s: symbolic index over %d elements", what, n)})
	}
	return int(p.concretize(t, 0, int64(n-1)))
}

func (p *Path) indexAddr(instr *ssa.IndexAddr, x, idx Value) Value {
	var s []Value
	switch x := x.(type) {
	case []Value:
		s = x
	case *Value:
		if x == nil {
			p.goPanicRuntime("invalid memory address or nil pointer dereference")
		}
		if *x == nil {
			*x = p.zero(instr.X.Type().Underlying().(*types.Pointer).Elem())
		}
		s = []Value((*x).(Array))
	case *Blob:
		panic(unsupported{"element access on a blob slice"})
	default:
		panic(unsupported{fmt.Sprintf("IndexAddr on %T", x)})
	}
	t, ok := idx.(*Term)
	if ok && !t.IsConst() {
		t = p.ctx.Sext(t, 64)
		inRange := p.ctx.Ult(t, p.ctx.BV(uint64(len(s)), 64))
		if !p.branch(inRange) {
			p.goPanicRuntime(fmt.Sprintf("index out of range [symbolic %s] with length %d", t.String(), len(s)))
		}
		// scalar elements: symbolic element pointer (ite-chain), no fork
		allScalar := len(s) > 0
		for _, e := range s {
			if e == nil {
				continue
			}
			if _, ok := e.(*Term); !ok {
				allScalar = false
				break
			}
		}
		if allScalar {
			var et types.Type
			switch u := instr.X.Type().Underlying().(type) {
			case *types.Slice:
				et = u.Elem()
			case *types.Pointer:
				et = u.Elem().Underlying().(*types.Array).Elem()
			}
			if lazyZero(et) {
				for i := range s {
					if s[i] == nil {
						s[i] = p.zero(et)
					}
				}
				return &SymElemPtr{S: s, Idx: t}
			}
		}
		if len(s) > p.eng.maxFan {
			panic(unsupported{fmt.Sprintf("symbolic index over %d non-scalar elements", len(s))})
		}
		return &s[p.concretize(t, 0, int64(len(s)-1))]
	}
	return &s[p.indexIn(idx, len(s), "IndexAddr")]
}

func (p *Path) indexOp(instr *ssa.Index, x, idx Value) Value {
	switch x := x.(type) {
	case Array:
		i := p.indexIn(idx, len(x), "Index")
		if x[i] == nil {
			return p.zero(instr.Type())
		}
		return copyVal(x[i])
	case string:
		i := p.indexIn(idx, len(x), "Index")
		return p.ctx.BV(uint64(x[i]), 8)
	case SymStr:
		i := p.indexIn(idx, len(x), "Index")
		return x[i]
	}
	panic(unsupported{fmt.Sprintf("Index on %T", x)})
}

func (p *Path) sliceBound(v Value, def int) (int, *Term) {
	if v == nil {
		return def, nil
	}
	t := v.(*Term)
	t = p.ctx.Sext(t, 64)
	if t.IsConst() {
		return int(int64(t.K)), nil
	}
	return 0, t
}

func (p *Path) sliceOp(instr *ssa.Slice, x, lo, hi, max Value) Value {
	var length, capacity int
	switch x := x.(type) {
	case []Value:
		length, capacity = len(x), cap(x)
	case string:
		length, capacity = len(x), len(x)
	case SymStr:
		length, capacity = len(x), len(x)
	case *Value:
		if x == nil {
			p.goPanicRuntime("invalid memory address or nil pointer dereference")
		}
		if *x == nil {
			*x = p.zero(instr.X.Type().Underlying().(*types.Pointer).Elem())
		}
		a := (*x).(Array)
		length, capacity = len(a), len(a)
	case *Blob:
		return p.blobSlice(x, lo, hi, max)
	default:
		panic(unsupported{fmt.Sprintf("Slice on %T", x)})
	}
	l, lt := p.sliceBound(lo, 0)
	h, ht := p.sliceBound(hi, length)
	m, mt := p.sliceBound(max, capacity)
	resolve := func(t *Term, lim int) int {
		inRange := p.ctx.Ule(t, p.ctx.BV(uint64(lim), 64))
		if !p.branch(inRange) {
			p.goPanicRuntime("slice bounds out of range [symbolic]")
		}
		if lim > p.eng.maxFan {
			panic(unsupported{fmt.Sprintf("symbolic slice bound over %d values", lim)})
		}
		return int(p.concretize(t, 0, int64(lim)))
	}
	if mt != nil {
		m = resolve(mt, capacity)
	}
	if ht != nil {
		h = resolve(ht, m)
	}
	if lt != nil {
		l = resolve(lt, h)
	}
	if m < 0 || m > capacity || h < 0 || h > m || l < 0 || l > h {
		p.goPanicRuntime(fmt.Sprintf("slice bounds out of range [%d:%d:%d] with capacity %d", l, h, m, capacity))
	}
	switch x := x.(type) {
	case []Value:
		if x == nil {
			return []Value(nil)
		}
		return x[l:h:m]
	case string:
		return x[l:h]
	case SymStr:
		return normStr(x[l:h])
	case *Value:
		a := (*x).(Array)
		return []Value(a)[l:h:m]
	}
	panic("unreachable")
}

// ---------------------------------------------------------------- maps

func (p *Path) mapFind(m *Map, key Value) int {
	for i := range m.K {
		eq := p.equalVals(m.KT, m.K[i], key)
		if p.branch(eq) {
			return i
		}
	}
	return -1
}

func (p *Path) lookup(instr *ssa.Lookup, x, key Value) Value {
	switch m := x.(type) {
	case *Map:
		vt := instr.X.Type().Underlying().(*types.Map).Elem()
		var v Value
		ok := false
		if m != nil {
			if i := p.mapFind(m, key); i >= 0 {
				v, ok = copyVal(m.V[i]), true
			}
		}
		if !ok {
			v = p.zero(vt)
		}
		if instr.CommaOk {
			return Tuple{v, p.ctx.Bool(ok)}
		}
		return v
	case string:
		i := p.indexIn(key, len(m), "string index")
		return p.ctx.BV(uint64(m[i]), 8)
	case SymStr:
		i := p.indexIn(key, len(m), "string index")
		return m[i]
	}
	panic(unsupported{fmt.Sprintf("Lookup on %T", x)})
}

func (p *Path) mapUpdate(mv, key, val Value) {
	m, ok := mv.(*Map)
	if !ok {
		panic(unsupported{fmt.Sprintf("MapUpdate on %T", mv)})
	}
	if m == nil {
		p.goPanicRuntime("assignment to entry in nil map")
	}
	if i := p.mapFind(m, key); i >= 0 {
		m.V[i] = copyVal(val)
		return
	}
	m.K = append(m.K, copyVal(key))
	m.V = append(m.V, copyVal(val))
}

func (p *Path) mapDelete(m *Map, key Value) {
	if m == nil {
		return
	}
	if i := p.mapFind(m, key); i >= 0 {
		m.K = append(m.K[:i:i], m.K[i+1:]...)
		m.V = append(m.V[:i:i], m.V[i+1:]...)
	}
}

type mapIter struct {
	k, v []Value
	i    int
}

func (it *mapIter) next(p *Path) Tuple {
	if it.i >= len(it.k) {
		return Tuple{p.ctx.F, nil, nil}
	}
	i := it.i
	it.i++
	return Tuple{p.ctx.T, it.k[i], copyVal(it.v[i])}
}

type strIter struct {
	s string
	i int
}

func (it *strIter) next(p *Path) Tuple {
	if it.i >= len(it.s) {
		return Tuple{p.ctx.F, p.ctx.BV(0, 64), p.ctx.BV(0, 32)}
	}
	for j, r := range it.s[it.i:] {
		_ = j
		idx := it.i
		n := len(string(r))
		if r == 0xFFFD {
			n = 1
		}
		it.i += n
		return Tuple{p.ctx.T, p.ctx.BV(uint64(idx), 64), p.ctx.BV(uint64(r), 32)}
	}
	panic("unreachable")
}

func (p *Path) rangeIter(x Value, t types.Type) rangeIter {
	switch x := x.(type) {
	case *Map:
		if x == nil {
			return &mapIter{}
		}
		k := append([]Value(nil), x.K...)
		v := append([]Value(nil), x.V...)
		if p.mapPerm && len(k) > 1 {
			// iterate in every order: choose a permutation by successive picks
			n := len(k)
			for i := 0; i < n-1; i++ {
				opts := make([]*Term, n-i)
				for j := range opts {
					opts[j] = p.fresh("perm", 0)
				}
				// exactly one option: encode as free choice via concretize-like decision
				pick := p.chooseFree("maporder", n-i)
				k[i], k[i+pick] = k[i+pick], k[i]
				v[i], v[i+pick] = v[i+pick], v[i]
			}
		}
		return &mapIter{k: k, v: v}
	case string:
		return &strIter{s: x}
	case SymStr:
		if s, ok := normStr(x).(string); ok {
			return &strIter{s: s}
		}
		panic(unsupported{"range over symbolic string"})
	}
	panic(unsupported{fmt.Sprintf("range over %T", x)})
}

// chooseFree forks n ways without adding a constraint (scheduling / order choices).
func (p *Path) chooseFree(kind string, n int) int {
	if n == 1 {
		return 0
	}
	if p.di < len(p.prefix) {
		d := p.prefix[p.di]
		p.di++
		if d.Kind != kind || d.N != n {
			panic(engineError{fmt.Sprintf("decision replay mismatch: have %s/%d want %s/%d", kind, n, d.Kind, d.N)})
		}
		p.decs = append(p.decs, d)
		return d.Pick
	}
	for i := 1; i < n; i++ {
		np := make([]Decision, len(p.decs), len(p.decs)+1)
		copy(np, p.decs)
		np = append(np, Decision{kind, n, i, 0})
		p.res.NewPrefixes = append(p.res.NewPrefixes, np)
	}
	p.decs = append(p.decs, Decision{kind, n, 0, 0})
	return 0
}

// ---------------------------------------------------------------- type assertions

func (p *Path) typeAssert(instr *ssa.TypeAssert, x Value) Value {
	itf, ok := x.(Iface)
	if !ok {
		if po, isP := x.(Poison); isP {
			panic(unsupported{"type assertion on poisoned value: " + po.Why})
		}
		panic(engineError{fmt.Sprintf("TypeAssert on %T", x)})
	}
	var v Value
	good := false
	if idst, isI := instr.AssertedType.Underlying().(*types.Interface); isI {
		if itf.T != nil && p.implements(itf, idst) {
			v, good = itf, true
		}
	} else if itf.T != nil && types.Identical(itf.T, instr.AssertedType) {
		v, good = copyVal(itf.V), true
	}
	if instr.CommaOk {
		if !good {
			v = p.zero(instr.AssertedType)
		}
		return Tuple{v, p.ctx.Bool(good)}
	}
	if !good {
		if itf.T == nil {
			p.goPanicRuntime(fmt.Sprintf("interface conversion: interface is nil, not %s", instr.AssertedType))
		}
		p.goPanicRuntime(fmt.Sprintf("interface conversion: interface is %s, not %s", itf.T, instr.AssertedType))
	}
	return v
}

func (p *Path) implements(itf Iface, idst *types.Interface) bool {
	if no, ok := itf.V.(*NativeObj); ok && no.Methods != nil {
		for i := 0; i < idst.NumMethods(); i++ {
			if _, ok := no.Methods[idst.Method(i).Name()]; !ok {
				return types.Implements(itf.T, idst)
			}
		}
		return true
	}
	return types.Implements(itf.T, idst)
}
