package main

// M4 — opaque JSON for the small set of record types regatta stores in the
// metadata store: json.Marshal(v) yields a blob carrying a deep copy of v;
// json.Unmarshal(blob, &x) copies fields across by (case-insensitive) JSON
// name, leaving unmatched fields untouched — what encoding/json does for
// these struct types. Strings built from such blobs stay blobs.

import (
	"fmt"
	"go/types"
	"reflect"
	"strings"
)

type jsonPayload struct {
	T types.Type
	V Value
}

func jsonFieldName(f *types.Var, tag string) (string, bool) {
	name := f.Name()
	if tag != "" {
		st := reflect.StructTag(tag)
		if j, ok := st.Lookup("json"); ok {
			parts := strings.Split(j, ",")
			if parts[0] == "-" {
				return "", false
			}
			if parts[0] != "" {
				name = parts[0]
			}
		}
	}
	if !f.Exported() {
		return "", false
	}
	return strings.ToLower(name), true
}

// deepCopyJSON copies a value as a JSON round trip would see it.
func (p *Path) deepCopyJSON(t types.Type, v Value) Value {
	switch u := t.Underlying().(type) {
	case *types.Struct:
		s, ok := v.(Struct)
		if !ok {
			panic(unsupported{fmt.Sprintf("json: struct value is %T", v)})
		}
		if named, ok := t.(*types.Named); ok && named.Obj().Pkg() != nil && named.Obj().Pkg().Path() == "time" && named.Obj().Name() == "Time" {
			return copyVal(s) // instants survive the round trip (monotonic reading is not modelled)
		}
		out := make(Struct, len(s))
		for i := range s {
			out[i] = p.deepCopyJSON(u.Field(i).Type(), s[i])
		}
		return out
	case *types.Pointer:
		ptr, ok := v.(*Value)
		if !ok || ptr == nil {
			return v
		}
		cell := new(Value)
		*cell = p.deepCopyJSON(u.Elem(), p.load(u.Elem(), ptr))
		return cell
	case *types.Slice:
		if s, ok := v.([]Value); ok && s != nil {
			out := make([]Value, len(s))
			for i := range s {
				out[i] = p.deepCopyJSON(u.Elem(), s[i])
			}
			return out
		}
		return v
	case *types.Basic:
		return v
	case *types.Map:
		m, ok := v.(*Map)
		if !ok || m == nil {
			return v
		}
		if !isString(u.Key()) {
			panic(unsupported{"json: map with non-string keys"})
		}
		out := &Map{KT: m.KT, VT: m.VT}
		for i := range m.K {
			out.K = append(out.K, copyVal(m.K[i]))
			out.V = append(out.V, p.deepCopyJSON(u.Elem(), m.V[i]))
		}
		return out
	}
	panic(unsupported{"json: type " + t.String()})
}

func (p *Path) jsonMarshal(v Value) Value {
	itf, ok := v.(Iface)
	if !ok || itf.T == nil {
		panic(unsupported{"json.Marshal(nil)"})
	}
	t, val := itf.T, itf.V
	// a json.Marshaler's own encoding is the document (encoding/json only compacts it)
	if f := p.eng.lookupMethod(t, "MarshalJSON"); f != nil && f.Blocks != nil {
		res := p.callSSA(nil, f, []Value{val}, nil).(Tuple)
		if !isNilPtr(res[1]) {
			panic(unsupported{"json: MarshalJSON returned an error"})
		}
		return res[0]
	}
	if pt, ok := t.Underlying().(*types.Pointer); ok {
		ptr, ok := val.(*Value)
		if !ok || ptr == nil {
			panic(unsupported{"json.Marshal of nil pointer"})
		}
		t, val = pt.Elem(), p.load(pt.Elem(), ptr)
	}
	switch t.Underlying().(type) {
	case *types.Struct, *types.Map:
	default:
		panic(unsupported{"json.Marshal of " + t.String()})
	}
	p.nextID++
	ln := p.fresh("jsonlen", 64)
	// a JSON document of an object has at least its two braces
	p.assume(p.ctx.And(p.ctx.Ule(p.ctx.BV(2, 64), ln), p.ctx.Ult(ln, p.ctx.BV(1<<31, 64))))
	return &Blob{ID: p.nextID, Len: ln, Data: &jsonPayload{T: t, V: p.deepCopyJSON(t, val)}}
}

// jsonAssign copies src (of struct type st) into the struct cell *dst (of type dt) by JSON name.
func (p *Path) jsonAssign(dt types.Type, dst *Value, st types.Type, src Value) {
	dsu, ok1 := dt.Underlying().(*types.Struct)
	ssu, ok2 := st.Underlying().(*types.Struct)
	if !ok1 || !ok2 {
		panic(unsupported{"json.Unmarshal between non-struct types"})
	}
	if *dst == nil {
		*dst = p.zero(dt)
	}
	d := (*dst).(Struct)
	s := src.(Struct)
	for i := 0; i < dsu.NumFields(); i++ {
		dn, ok := jsonFieldName(dsu.Field(i), dsu.Tag(i))
		if !ok {
			continue
		}
		for j := 0; j < ssu.NumFields(); j++ {
			sn, ok := jsonFieldName(ssu.Field(j), ssu.Tag(j))
			if !ok || sn != dn {
				continue
			}
			ft, sft := dsu.Field(i).Type(), ssu.Field(j).Type()
			if types.Identical(ft, sft) {
				d[i] = p.deepCopyJSON(ft, s[j])
			} else if _, isS := ft.Underlying().(*types.Struct); isS {
				if _, isS2 := sft.Underlying().(*types.Struct); isS2 {
					p.jsonAssign(ft, &d[i], sft, s[j])
				}
			} else {
				panic(unsupported{fmt.Sprintf("json: field %s has type %s in source and %s in target", dn, sft, ft)})
			}
		}
	}
}

// jsonInto decodes the document bl/pl into *dst (static type tt = pointer pt).
func (p *Path) jsonInto(bl *Blob, pl *jsonPayload, tt types.Type, pt *types.Pointer, dst *Value) Value {
	// a json.Unmarshaler receives the document itself
	if f := p.eng.lookupMethod(tt, "UnmarshalJSON"); f != nil && f.Blocks != nil {
		return p.callSSA(nil, f, []Value{dst, bl}, nil)
	}
	if mt, ok := pt.Elem().Underlying().(*types.Map); ok {
		src, ok := pl.V.(*Map)
		if _, isMap := pl.T.Underlying().(*types.Map); !isMap || (!ok && pl.V != nil) {
			return p.newError("json: cannot unmarshal object into Go value of type " + pt.Elem().String())
		}
		// encoding/json allocates a map only when the target is nil and otherwise
		// adds to / overwrites the entries that are there
		m, _ := (*dst).(*Map)
		if m == nil {
			m = &Map{KT: mt.Key(), VT: mt.Elem()}
			*dst = m
		}
		if src != nil {
			for i := range src.K {
				p.mapUpdate(m, src.K[i], p.deepCopyJSON(mt.Elem(), src.V[i]))
			}
		}
		return Iface{}
	}
	p.jsonAssign(pt.Elem(), dst, pl.T, pl.V)
	return Iface{}
}

func init() {
	reg("encoding/json.Marshal", func(p *Path, _ *frame, a []Value) Value {
		return Tuple{p.jsonMarshal(a[0]), Iface{}}
	})
	reg("encoding/json.Unmarshal", func(p *Path, _ *frame, a []Value) Value {
		bl, ok := a[0].(*Blob)
		if !ok {
			panic(unsupported{fmt.Sprintf("json.Unmarshal of %T (only blobs produced by the json model)", a[0])})
		}
		pl, ok := bl.Data.(*jsonPayload)
		if !ok {
			return p.newError("json: invalid character (not a JSON document)")
		}
		tgt, ok := a[1].(Iface)
		if !ok || tgt.T == nil {
			panic(unsupported{"json.Unmarshal into nil"})
		}
		pt, ok := tgt.T.Underlying().(*types.Pointer)
		if !ok {
			return p.newError("json: Unmarshal(non-pointer)")
		}
		dst, ok := tgt.V.(*Value)
		if !ok || dst == nil {
			return p.newError("json: Unmarshal(nil)")
		}
		return p.jsonInto(bl, pl, tgt.T, pt, dst)
	})
	// json.NewDecoder(r).Decode(v) where r is a *bytes.Reader positioned at the
	// start of a document of the model: the whole document is consumed.
	// json.NewEncoder(w).Encode(v): the document of v (plus a newline the model
	// does not represent) is written to w in one piece.
	reg("encoding/json.NewEncoder", func(p *Path, _ *frame, a []Value) Value {
		return &NativeObj{Kind: "json.Encoder", T: types.NewPointer(p.eng.namedType("encoding/json", "Encoder")), Data: a[0]}
	})
	reg("(*encoding/json.Encoder).Encode", func(p *Path, _ *frame, a []Value) Value {
		w := pData[Value](p, a[0], "json.Encoder")
		doc := p.jsonMarshal(a[1])
		res := p.callMethod(w, "Write", doc).(Tuple)
		return res[1]
	})
	reg("encoding/json.NewDecoder", func(p *Path, _ *frame, a []Value) Value {
		return &NativeObj{Kind: "json.Decoder", T: types.NewPointer(p.eng.namedType("encoding/json", "Decoder")), Data: a[0]}
	})
	reg("(*encoding/json.Decoder).Decode", func(p *Path, _ *frame, a []Value) Value {
		r := pData[Value](p, a[0], "json.Decoder")
		itf, ok := r.(Iface)
		if !ok || itf.T == nil || itf.T.String() != "*bytes.Reader" {
			panic(unsupported{"json.Decoder over a reader that is not a *bytes.Reader"})
		}
		cell := itf.V.(*Value)
		rt := p.eng.namedType("bytes", "Reader")
		if *cell == nil {
			*cell = p.zero(rt)
		}
		st := (*cell).(Struct)
		bl, ok := p.structField(st, rt, "s").(*Blob)
		pos := p.asTerm(p.structField(st, rt, "i"), "bytes.Reader position")
		if !ok {
			panic(unsupported{"json.Decoder over bytes that are not a document of the json model"})
		}
		if !pos.IsConst() || pos.K != 0 {
			return p.loadGlobalErr("io", "EOF")
		}
		p.setField(st, rt, "i", bl.Len)
		pl, ok := bl.Data.(*jsonPayload)
		if !ok {
			return p.newError("json: invalid character (not a JSON document)")
		}
		tgt, ok := a[1].(Iface)
		if !ok || tgt.T == nil {
			panic(unsupported{"json Decode into nil"})
		}
		pt, ok := tgt.T.Underlying().(*types.Pointer)
		if !ok {
			return p.newError("json: Unmarshal(non-pointer)")
		}
		dst, ok := tgt.V.(*Value)
		if !ok || dst == nil {
			return p.newError("json: Unmarshal(nil)")
		}
		return p.jsonInto(bl, pl, tgt.T, pt, dst)
	})
}
