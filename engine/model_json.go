package main

// M4 — opaque JSON for the small set of record types regatta stores in the
// metadata store: json.Marshal(v) yields a blob carrying a deep copy of v;
// json.Unmarshal(blob, &x) copies fields across by (case-insensitive) JSON
// name, leaving unmatched fields untouched — what encoding/json does for
// these struct types. Strings built from such blobs stay blobs.

import (
	"fmt"
	"go/types"
	"reflect"
	"strings"
)

type jsonPayload struct {
	T types.Type
	V Value
}

func jsonFieldName(f *types.Var, tag string) (string, bool) {
	name := f.Name()
	if tag != "" {
		st := reflect.StructTag(tag)
		if j, ok := st.Lookup("json"); ok {
			parts := strings.Split(j, ",")
			if parts[0] == "-" {
				return "", false
			}
			if parts[0] != "" {
				name = parts[0]
			}
		}
	}
	if !f.Exported() {
		return "", false
	}
	return strings.ToLower(name), true
}

// deepCopyJSON copies a value as a JSON round trip would see it.
func (p *Path) deepCopyJSON(t types.Type, v Value) Value {
	switch u := t.Underlying().(type) {
	case *types.Struct:
		s, ok := v.(Struct)
		if !ok {
			panic(unsupported{fmt.Sprintf("json: struct value is %T", v)})
		}
		if named, ok := t.(*types.Named); ok && named.Obj().Pkg() != nil && named.Obj().Pkg().Path() == "time" && named.Obj().Name() == "Time" {
			return copyVal(s) // instants survive the round trip (monotonic reading is not modelled)
		}
		out := make(Struct, len(s))
		for i := range s {
			out[i] = p.deepCopyJSON(u.Field(i).Type(), s[i])
		}
		return out
	case *types.Pointer:
		ptr, ok := v.(*Value)
		if !ok || ptr == nil {
			return v
		}
		cell := new(Value)
		*cell = p.deepCopyJSON(u.Elem(), p.load(u.Elem(), ptr))
		return cell
	case *types.Slice:
		if s, ok := v.([]Value); ok && s != nil {
			out := make([]Value, len(s))
			for i := range s {
				out[i] = p.deepCopyJSON(u.Elem(), s[i])
			}
			return out
		}
		return v
	case *types.Basic:
		return v
	case *types.Map:
		panic(unsupported{"json: maps are not modelled (MapStore snapshot is outside the claim)"})
	}
	panic(unsupported{"json: type " + t.String()})
}

func (p *Path) jsonMarshal(v Value) Value {
	itf, ok := v.(Iface)
	if !ok || itf.T == nil {
		panic(unsupported{"json.Marshal(nil)"})
	}
	t, val := itf.T, itf.V
	if pt, ok := t.Underlying().(*types.Pointer); ok {
		ptr, ok := val.(*Value)
		if !ok || ptr == nil {
			panic(unsupported{"json.Marshal of nil pointer"})
		}
		t, val = pt.Elem(), p.load(pt.Elem(), ptr)
	}
	if _, ok := t.Underlying().(*types.Struct); !ok {
		panic(unsupported{"json.Marshal of non-struct " + t.String()})
	}
	p.nextID++
	return &Blob{ID: p.nextID, Len: p.fresh("jsonlen", 64), Data: &jsonPayload{T: t, V: p.deepCopyJSON(t, val)}}
}

// jsonAssign copies src (of struct type st) into the struct cell *dst (of type dt) by JSON name.
func (p *Path) jsonAssign(dt types.Type, dst *Value, st types.Type, src Value) {
	dsu, ok1 := dt.Underlying().(*types.Struct)
	ssu, ok2 := st.Underlying().(*types.Struct)
	if !ok1 || !ok2 {
		panic(unsupported{"json.Unmarshal between non-struct types"})
	}
	if *dst == nil {
		*dst = p.zero(dt)
	}
	d := (*dst).(Struct)
	s := src.(Struct)
	for i := 0; i < dsu.NumFields(); i++ {
		dn, ok := jsonFieldName(dsu.Field(i), dsu.Tag(i))
		if !ok {
			continue
		}
		for j := 0; j < ssu.NumFields(); j++ {
			sn, ok := jsonFieldName(ssu.Field(j), ssu.Tag(j))
			if !ok || sn != dn {
				continue
			}
			ft, sft := dsu.Field(i).Type(), ssu.Field(j).Type()
			if types.Identical(ft, sft) {
				d[i] = p.deepCopyJSON(ft, s[j])
			} else if _, isS := ft.Underlying().(*types.Struct); isS {
				if _, isS2 := sft.Underlying().(*types.Struct); isS2 {
					p.jsonAssign(ft, &d[i], sft, s[j])
				}
			} else {
				panic(unsupported{fmt.Sprintf("json: field %s has type %s in source and %s in target", dn, sft, ft)})
			}
		}
	}
}

func init() {
	reg("encoding/json.Marshal", func(p *Path, _ *frame, a []Value) Value {
		return Tuple{p.jsonMarshal(a[0]), Iface{}}
	})
	reg("encoding/json.Unmarshal", func(p *Path, _ *frame, a []Value) Value {
		bl, ok := a[0].(*Blob)
		if !ok {
			panic(unsupported{fmt.Sprintf("json.Unmarshal of %T (only blobs produced by the json model)", a[0])})
		}
		pl, ok := bl.Data.(*jsonPayload)
		if !ok {
			return p.newError("json: invalid character (not a JSON document)")
		}
		tgt, ok := a[1].(Iface)
		if !ok || tgt.T == nil {
			panic(unsupported{"json.Unmarshal into nil"})
		}
		pt, ok := tgt.T.Underlying().(*types.Pointer)
		if !ok {
			return p.newError("json: Unmarshal(non-pointer)")
		}
		dst, ok := tgt.V.(*Value)
		if !ok || dst == nil {
			return p.newError("json: Unmarshal(nil)")
		}
		p.jsonAssign(pt.Elem(), dst, pl.T, pl.V)
		return Iface{}
	})
}
