package main

// M6 — crash-consistent in-memory file system (vfs.NewMem / vfs.NewStrictMem).
//
// Every file has (volatile content, durable content); every directory has
// (volatile entries, durable entries). File.Sync makes the file's content
// durable, Sync on a directory handle makes its entry set durable; Create /
// Rename / Remove / MkdirAll change volatile entries only. A crash
// (ResetToSyncedState) replaces volatile by durable everywhere; entries never
// made durable vanish with everything below them. A Pebble database lives in
// its directory's inode: committed content is volatile until Flush (the WAL
// is disabled), and survives a crash only if the directory itself does.
// The non-strict variant (vfs.NewMem) makes everything durable at once.

import (
	"crypto/md5"
	"fmt"
	"go/types"
	"path"
	"sort"
	"strings"
)

type fsInode struct {
	dir     bool
	data    []*Term
	durData []*Term
	ents    map[string]*fsInode
	durEnts map[string]*fsInode
	// pebble database state (directories only)
	hasDB bool
	dbCur []pEntry
	dbDur []pEntry
	dbGen int
	// an ingested table whose file content was not durable at Ingest time: after a
	// crash the manifest names a table that is not there and the database does not open
	dbDurBroken bool
	dbBroken    bool
}

type fsModel struct {
	strict bool
	root   *fsInode
	ops    int
	gen    int // bumped at every crash: handles from before are dead
	// vfs.MemFS.SetIgnoreSyncs: while set, nothing becomes durable
	ignoreSyncs bool
}

type fsHandle struct {
	fs    *fsModel
	ino   *fsInode
	pos   int
	name  string
	gen   int
	close bool
}

func newFSModel(strict bool) *fsModel {
	return &fsModel{strict: strict, root: &fsInode{dir: true, ents: map[string]*fsInode{}, durEnts: map[string]*fsInode{}}}
}

func splitPath(p string) []string {
	p = path.Clean("/" + p)
	if p == "/" {
		return nil
	}
	return strings.Split(strings.TrimPrefix(p, "/"), "/")
}

func (f *fsModel) lookup(p string) *fsInode {
	n := f.root
	for _, el := range splitPath(p) {
		if n == nil || !n.dir {
			return nil
		}
		n = n.ents[el]
	}
	return n
}

func (f *fsModel) parentOf(p string) (*fsInode, string) {
	els := splitPath(p)
	if len(els) == 0 {
		return nil, ""
	}
	n := f.root
	for _, el := range els[:len(els)-1] {
		if n == nil || !n.dir {
			return nil, ""
		}
		n = n.ents[el]
	}
	if n == nil || !n.dir {
		return nil, ""
	}
	return n, els[len(els)-1]
}

func (f *fsModel) mkdirAll(p string) *fsInode {
	n := f.root
	for _, el := range splitPath(p) {
		c := n.ents[el]
		if c == nil {
			c = &fsInode{dir: true, ents: map[string]*fsInode{}, durEnts: map[string]*fsInode{}}
			n.ents[el] = c
			if !f.strict {
				n.durEnts[el] = c
			}
		}
		if !c.dir {
			return nil
		}
		n = c
	}
	return n
}

func copyEnts(m map[string]*fsInode) map[string]*fsInode {
	r := make(map[string]*fsInode, len(m))
	for k, v := range m {
		r[k] = v
	}
	return r
}

// crash: volatile := durable, everywhere.
func (f *fsModel) crash() {
	f.gen++
	var walk func(n *fsInode)
	walk = func(n *fsInode) {
		if n.dir {
			n.ents = copyEnts(n.durEnts)
			if n.hasDB {
				n.dbCur = n.dbDur
				n.dbGen++
				if n.dbDurBroken {
					n.dbBroken = true
				}
			}
			for _, c := range n.ents {
				walk(c)
			}
		} else {
			n.data = append([]*Term(nil), n.durData...)
		}
	}
	walk(f.root)
}

func (p *Path) fsErr(kind string, name string) Value {
	// os.ErrNotExist-like errors: distinct per kind, message carries the path
	e := p.newWrapErr(kind+" "+name, []Value{p.sentinelError("io/fs.Err" + kind)})
	return e
}

func (p *Path) fileInfo(name string, n *fsInode) Value {
	no := &NativeObj{Kind: "os.FileInfo", T: types.NewPointer(p.eng.namedType("os", "fileStat"))}
	no.Methods = map[string]*NativeFunc{
		"IsDir": {Name: "FileInfo.IsDir", F: func(p *Path, g *Goroutine, a []Value) Value { return p.ctx.Bool(n.dir) }},
		"Name":  {Name: "FileInfo.Name", F: func(p *Path, g *Goroutine, a []Value) Value { return path.Base(name) }},
		"Size":  {Name: "FileInfo.Size", F: func(p *Path, g *Goroutine, a []Value) Value { return p.ctx.BV(uint64(len(n.data)), 64) }},
	}
	return Iface{T: no.T, V: no}
}

func (p *Path) fsFile(f *fsModel, n *fsInode, name string) Value {
	h := &fsHandle{fs: f, ino: n, name: name, gen: f.gen}
	no := &NativeObj{Kind: "vfs.File", T: types.NewPointer(p.eng.namedType(vfsPkg, "memFile")), Data: h}
	dead := func(p *Path) {
		if h.gen != f.gen {
			panic(unsupported{"use of a file handle from before a crash"})
		}
	}
	no.Methods = map[string]*NativeFunc{
		"Write": {Name: "File.Write", F: func(p *Path, g *Goroutine, a []Value) Value {
			dead(p)
			if n.dir {
				return Tuple{p.ctx.BV(0, 64), p.newError("write on a directory")}
			}
			ts := p.sliceTerms(a[1])
			n.data = append(n.data, ts...)
			if !f.strict {
				n.durData = append([]*Term(nil), n.data...)
			}
			return Tuple{p.ctx.BV(uint64(len(ts)), 64), Iface{}}
		}},
		"Read": {Name: "File.Read", F: func(p *Path, g *Goroutine, a []Value) Value {
			dead(p)
			buf, _ := a[1].([]Value)
			if h.pos >= len(n.data) {
				return Tuple{p.ctx.BV(0, 64), p.loadGlobalErr("io", "EOF")}
			}
			k := copy(buf, p.termsToSlice(n.data[h.pos:]))
			h.pos += k
			return Tuple{p.ctx.BV(uint64(k), 64), Iface{}}
		}},
		"Sync": {Name: "File.Sync", F: func(p *Path, g *Goroutine, a []Value) Value {
			dead(p)
			if f.ignoreSyncs {
				return Iface{}
			}
			if n.dir {
				n.durEnts = copyEnts(n.ents)
			} else {
				n.durData = append([]*Term(nil), n.data...)
			}
			return Iface{}
		}},
		"Close": {Name: "File.Close", F: func(p *Path, g *Goroutine, a []Value) Value { h.close = true; return Iface{} }},
		"Stat": {Name: "File.Stat", F: func(p *Path, g *Goroutine, a []Value) Value {
			return Tuple{p.fileInfo(name, n), Iface{}}
		}},
	}
	return Iface{T: no.T, V: no}
}

// loadGlobalErr reads an error variable of an interpreted package (io.EOF).
func (p *Path) loadGlobalErr(pkg, name string) Value {
	pk := p.eng.prog.ImportedPackage(pkg)
	g := pk.Var(name)
	return p.load(g.Type().(*types.Pointer).Elem(), p.globalAddr(g))
}

// fsOf unwraps a vfs.FS value to the model behind it (through harness
// wrappers that embed a vfs.FS).
func (p *Path) fsOf(v Value, depth int) *fsModel {
	if depth > 4 {
		return nil
	}
	switch x := v.(type) {
	case Iface:
		if x.T == nil {
			return nil
		}
		return p.fsOf(x.V, depth+1)
	case *NativeObj:
		if m, ok := x.Data.(*fsModel); ok {
			return m
		}
	case *Value:
		if x == nil || *x == nil {
			return nil
		}
		if st, ok := (*x).(Struct); ok {
			for _, f := range st {
				if m := p.fsOf(f, depth+1); m != nil {
					return m
				}
			}
		}
	case Struct:
		for _, f := range x {
			if m := p.fsOf(f, depth+1); m != nil {
				return m
			}
		}
	}
	return nil
}

func (p *Path) fsOpenPebble(fsv Value, dir string) (*pDB, Value) {
	f := p.fsOf(fsv, 0)
	if f == nil {
		return nil, nil
	}
	n := f.lookup(dir)
	if n == nil {
		n = f.mkdirAll(dir)
	}
	if n == nil || !n.dir {
		panic(unsupported{"pebble.Open on a non-directory"})
	}
	if !n.hasDB {
		n.hasDB = true
		n.dbCur, n.dbDur = nil, nil
		if mf := n.ents["MODELDB"]; mf != nil && !mf.dir {
			// a checkpoint that travelled as files (C08): its content is the database
			ents, ok := p.parseEnts(mf.data)
			if !ok {
				panic(unsupported{"pebble.Open on a directory with a damaged model database file"})
			}
			n.dbCur = ents
			// Open syncs the directory (see below), so the file's entry is durable from
			// here on; its content is durable as far as the writer synced it
			if d, ok := p.parseEntsQuiet(mf.durData); ok {
				n.dbDur = d
			} else if len(mf.durData) != len(mf.data) {
				n.dbDurBroken = true // a table file whose content never reached the disk
			}
		}
		if !f.strict {
			// pebble syncs its own directory; on the non-strict FS everything is durable anyway
		}
	}
	if n.dbBroken {
		return nil, p.newError("pebble: file size mismatch (disk) != (MANIFEST): an ingested table was not durable")
	}
	// Pebble creates and syncs the files inside its own directory (Open ends with
	// a sync of the directory after writing its OPTIONS file), never the entry of
	// that directory in its parent.
	n.durEnts = copyEnts(n.ents)
	db := &pDB{dir: dir, ents: n.dbCur, ino: n, fs: f, inoGen: n.dbGen}
	return db, nil
}

func (p *Path) fsPebbleFlushed(db *pDB) {
	if db.fs != nil && db.fs.ignoreSyncs {
		return
	}
	if db.ino != nil {
		db.ino.dbDur = db.ents
	}
}

// dbSync keeps the inode's volatile view in step with the handle.
func (db *pDB) syncInode() {
	if db.ino != nil {
		db.ino.dbCur = db.ents
		if db.fs != nil && !db.fs.strict {
			db.ino.dbDur = db.ents
		}
	}
}

func init() {
	M := "(*" + vfsPkg + ".MemFS)."
	fsArg := func(p *Path, v Value) *fsModel { return pData[*fsModel](p, v, "vfs.MemFS") }
	reg(M+"Stat", func(p *Path, _ *frame, a []Value) Value {
		f := fsArg(p, a[0])
		name, _ := p.concreteString(a[1])
		n := f.lookup(name)
		if n == nil {
			return Tuple{Iface{}, p.fsErr("NotExist", name)}
		}
		return Tuple{p.fileInfo(name, n), Iface{}}
	})
	reg(M+"MkdirAll", func(p *Path, _ *frame, a []Value) Value {
		f := fsArg(p, a[0])
		name, _ := p.concreteString(a[1])
		if f.mkdirAll(name) == nil {
			return p.newError("mkdir " + name + ": not a directory")
		}
		return Iface{}
	})
	open := func(p *Path, _ *frame, a []Value) Value {
		f := fsArg(p, a[0])
		name, _ := p.concreteString(a[1])
		n := f.lookup(name)
		if n == nil {
			return Tuple{Iface{}, p.fsErr("NotExist", name)}
		}
		return Tuple{p.fsFile(f, n, name), Iface{}}
	}
	reg(M+"Open", open)
	reg(M+"OpenDir", open)
	reg(M+"Create", func(p *Path, _ *frame, a []Value) Value {
		f := fsArg(p, a[0])
		name, _ := p.concreteString(a[1])
		par, base := f.parentOf(name)
		if par == nil {
			return Tuple{Iface{}, p.fsErr("NotExist", name)}
		}
		n := &fsInode{}
		par.ents[base] = n
		if !f.strict {
			par.durEnts[base] = n
		}
		return Tuple{p.fsFile(f, n, name), Iface{}}
	})
	reg(M+"Rename", func(p *Path, _ *frame, a []Value) Value {
		f := fsArg(p, a[0])
		from, _ := p.concreteString(a[1])
		to, _ := p.concreteString(a[2])
		fp, fb := f.parentOf(from)
		tp, tb := f.parentOf(to)
		if fp == nil || fp.ents[fb] == nil || tp == nil {
			return p.fsErr("NotExist", from)
		}
		tp.ents[tb] = fp.ents[fb]
		delete(fp.ents, fb)
		if !f.strict {
			tp.durEnts[tb] = tp.ents[tb]
			delete(fp.durEnts, fb)
		}
		return Iface{}
	})
	remove := func(p *Path, _ *frame, a []Value) Value {
		f := fsArg(p, a[0])
		name, _ := p.concreteString(a[1])
		par, base := f.parentOf(name)
		if par != nil {
			delete(par.ents, base)
			if !f.strict {
				delete(par.durEnts, base)
			}
		}
		return Iface{}
	}
	reg(M+"Remove", remove)
	reg(M+"RemoveAll", remove)
	reg(M+"List", func(p *Path, _ *frame, a []Value) Value {
		f := fsArg(p, a[0])
		name, _ := p.concreteString(a[1])
		n := f.lookup(name)
		if n == nil || !n.dir {
			return Tuple{[]Value(nil), p.fsErr("NotExist", name)}
		}
		var names []string
		for k := range n.ents {
			names = append(names, k)
		}
		sort.Strings(names)
		out := make([]Value, len(names))
		for i, s := range names {
			out[i] = s
		}
		return Tuple{out, Iface{}}
	})
	reg(M+"ResetToSyncedState", func(p *Path, _ *frame, a []Value) Value {
		fsArg(p, a[0]).crash()
		return nil
	})
	reg(M+"SetIgnoreSyncs", func(p *Path, _ *frame, a []Value) Value {
		fsArg(p, a[0]).ignoreSyncs = p.branch(p.boolArg(a[1]))
		return nil
	})
	reg(M+"PathDir", func(p *Path, _ *frame, a []Value) Value {
		name, _ := p.concreteString(a[1])
		return path.Dir(name)
	})
	reg(M+"PathBase", func(p *Path, _ *frame, a []Value) Value {
		name, _ := p.concreteString(a[1])
		return path.Base(name)
	})
	reg(M+"PathJoin", func(p *Path, _ *frame, a []Value) Value {
		var els []string
		for _, e := range a[1].([]Value) {
			s, _ := p.concreteString(e)
			els = append(els, s)
		}
		return path.Join(els...)
	})

	// md5 over concrete bytes (directory names are concrete in every harness)
	reg("crypto/md5.New", func(p *Path, _ *frame, a []Value) Value {
		var buf []byte
		no := &NativeObj{Kind: "md5", T: types.NewPointer(p.eng.namedType("crypto/md5", "digest"))}
		no.Methods = map[string]*NativeFunc{
			"Write": {Name: "md5.Write", F: func(p *Path, g *Goroutine, a []Value) Value {
				b, ok := p.concreteBytes(a[1])
				if !ok {
					panic(unsupported{"md5 over symbolic bytes"})
				}
				buf = append(buf, b...)
				return Tuple{p.ctx.BV(uint64(len(b)), 64), Iface{}}
			}},
			"Sum": {Name: "md5.Sum", F: func(p *Path, g *Goroutine, a []Value) Value {
				s := md5.Sum(buf)
				prefix, _ := a[1].([]Value)
				return append(append([]Value(nil), prefix...), p.bytesToSlice(s[:])...)
			}},
		}
		return Iface{T: no.T, V: no}
	})
	// distinct fresh directory names
	reg(regattaMod+"/pebble.GetNewRandomDBDirName", func(p *Path, _ *frame, a []Value) Value {
		p.nextID++
		return fmt.Sprintf("rnd_%d", p.nextID)
	})
	reg("os.Hostname", func(p *Path, _ *frame, a []Value) Value { return Tuple{"host", Iface{}} })
}
