package main

// M6 — crash-consistent in-memory file system (filled in with C04/C08).

type fsModel struct {
	strict bool
}

func newFSModel(strict bool) *fsModel { return &fsModel{strict: strict} }
