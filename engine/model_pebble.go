package main

// M1 — Pebble as a sorted byte-string map with batches, snapshots, iterators.
//
// State: a strictly ascending list of (key, value) with keys and values of
// concrete length and symbolic content. Where an operation's effect depends
// on the order of symbolic keys (position of an insert, of a bound, a point
// lookup) the model makes an n-way decision over the possible positions, so
// every order relation between the operation's key and the stored keys is
// explored, each with the full content still symbolic.

import (
	"fmt"
	"go/types"
)

const pebblePkg = "github.com/cockroachdb/pebble"

type pEntry struct {
	k []*Term
	v Value // []Value (cells) or *Blob
	// how many Sets the key has received since it was last absent, and the value
	// the latest Set overwrote: what SingleDelete needs (it cancels ONE Set)
	sets int
	prev Value
}

type pOp struct {
	kind   int // 0 set, 1 delete, 2 deleteRange
	k, end []*Term
	v      Value
}

type pDB struct {
	ghosts   []pEntry // single-deleted keys whose older value reappears at the next flush
	ents     []pEntry
	closed   bool
	dir      string
	gen      int // bumped on every commit
	flushed  []pEntry
	commits  int
	batchLog []string
	ino      *fsInode // the directory the database lives in (crash-FS model), if any
	fs       *fsModel
	inoGen   int
}

type pBatch struct {
	lenTerm   *Term
	db        *pDB
	indexed   bool
	ops       []pOp
	closed    bool
	committed bool
	viewGen   int
	viewOps   int
	view      []pEntry
	hasView   bool
}

type pSnapshot struct {
	db     *pDB
	ents   []pEntry
	closed bool
}

type pIter struct {
	ents   []pEntry
	pos    int
	closed bool
	bad    bool
	owner  *pDB
}

func (p *Path) pebbleType(name string) types.Type {
	return types.NewPointer(p.eng.namedType(pebblePkg, name))
}

func (p *Path) newPObj(kind string, data interface{}) *NativeObj {
	return &NativeObj{Kind: kind, T: p.pebbleType(kind), Data: data}
}

func pData[T any](p *Path, v Value, what string) T {
	no, ok := v.(*NativeObj)
	if !ok || no == nil {
		if isNilPtr(v) {
			p.goPanicRuntime("invalid memory address or nil pointer dereference (nil " + what + ")")
		}
		panic(unsupported{fmt.Sprintf("%s: receiver is %T", what, v)})
	}
	d, ok := no.Data.(T)
	if !ok {
		panic(engineError{fmt.Sprintf("%s: wrong model object %T", what, no.Data)})
	}
	return d
}

// yieldAtDBOp: with verif.YieldAtDB(true), every operation on a database
// handle is a scheduling point (operations on batches, snapshots and
// iterators are not: they do not touch shared state until Commit).
func (p *Path) yieldAtDBOp() {
	if p.yieldAtDB {
		p.yield()
	}
}

func (p *Path) pebblePanicClosed() {
	p.goPanic(p.sentinelError(pebblePkg + ".ErrClosed"))
}

// keyTerms converts a key argument to terms (copy).
func (p *Path) keyTerms(v Value) []*Term {
	if _, ok := v.(*Blob); ok {
		panic(unsupported{"blob used as a Pebble key"})
	}
	return p.sliceTerms(v)
}

func (p *Path) valCopy(v Value) Value {
	switch x := v.(type) {
	case *Blob:
		return x
	case []Value:
		return p.termsToSlice(p.sliceTerms(x))
	}
	if isNilPtr(v) {
		return []Value{}
	}
	panic(unsupported{fmt.Sprintf("Pebble value of %T", v)})
}

// pLocate returns the index of the first entry with key >= k and whether that
// entry's key equals k. One decision over all 2n+1 possibilities.
func (p *Path) pLocate(ents []pEntry, k []*Term) (int, bool) {
	n := len(ents)
	if n == 0 {
		return 0, false
	}
	c := p.ctx
	less := make([]*Term, n) // ents[j].k < k
	eq := make([]*Term, n)
	for j := 0; j < n; j++ {
		less[j] = p.bytesLess(ents[j].k, k)
		eq[j] = p.bytesEq(ents[j].k, k)
	}
	opts := make([]*Term, 0, 2*n+1)
	for j := 0; j <= n; j++ {
		// gap j: ents[j-1] < k < ents[j]
		g := c.T
		if j > 0 {
			g = less[j-1]
		}
		if j < n {
			g = c.And(g, c.And(c.Not(less[j]), c.Not(eq[j])))
		}
		opts = append(opts, g)
	}
	for j := 0; j < n; j++ {
		opts = append(opts, eq[j])
	}
	pick := p.choose("pos", opts)
	pos, found := pick, false
	if pick > n {
		pos, found = pick-n-1, true
	}
	// facts implied by the choice (entries are strictly ascending): the full
	// order relation between k and every entry, in both argument orders
	for j := 0; j < n; j++ {
		var rel int // -1: ents[j] < k, 0: equal, 1: ents[j] > k
		switch {
		case found && j == pos:
			rel = 0
		case j < pos:
			rel = -1
		default:
			rel = 1
		}
		p.learn(less[j], rel == -1)
		p.learn(eq[j], rel == 0)
		p.learn(p.bytesLess(k, ents[j].k), rel == 1)
		p.learn(p.bytesEq(k, ents[j].k), rel == 0)
	}
	return pos, found
}

func applyOp(p *Path, ents []pEntry, op pOp) []pEntry {
	switch op.kind {
	case 0:
		i, found := p.pLocate(ents, op.k)
		out := make([]pEntry, 0, len(ents)+1)
		out = append(out, ents[:i]...)
		ne := pEntry{k: op.k, v: op.v, sets: 1}
		if found {
			ne.sets, ne.prev = ents[i].sets+1, ents[i].v
		}
		out = append(out, ne)
		if found {
			out = append(out, ents[i+1:]...)
		} else {
			out = append(out, ents[i:]...)
		}
		return out
	case 1, 3: // a single delete hides the key like a delete until the next flush (see pDB.ghosts)
		i, found := p.pLocate(ents, op.k)
		if !found {
			return ents
		}
		out := make([]pEntry, 0, len(ents))
		out = append(out, ents[:i]...)
		out = append(out, ents[i+1:]...)
		return out
	default:
		i, _ := p.pLocate(ents, op.k)
		j, _ := p.pLocate(ents, op.end)
		if i >= j {
			return ents // empty or inverted span: Pebble's fragmenter drops it
		}
		out := make([]pEntry, 0, len(ents))
		out = append(out, ents[:i]...)
		out = append(out, ents[j:]...)
		return out
	}
}

// resurrect: a flush lets the value under a single-deleted, more-than-once
// written key reappear (unless a newer Set covers it).
func (db *pDB) resurrect(p *Path) {
	for _, g := range db.ghosts {
		i, found := p.pLocate(db.ents, g.k)
		if found {
			continue
		}
		out := make([]pEntry, 0, len(db.ents)+1)
		out = append(out, db.ents[:i]...)
		out = append(out, g)
		out = append(out, db.ents[i:]...)
		db.ents = out
		db.gen++
	}
	if len(db.ghosts) > 0 {
		db.ghosts = nil
		db.syncInode()
	}
}

func (b *pBatch) currentView(p *Path) []pEntry {
	if b.hasView && b.viewGen == b.db.gen && b.viewOps <= len(b.ops) {
		// extend incrementally
		for _, op := range b.ops[b.viewOps:] {
			b.view = applyOp(p, b.view, op)
		}
		b.viewOps = len(b.ops)
		return b.view
	}
	v := b.db.ents
	for _, op := range b.ops {
		v = applyOp(p, v, op)
	}
	b.view, b.viewGen, b.viewOps, b.hasView = v, b.db.gen, len(b.ops), true
	return v
}

func (p *Path) structField(v Value, t types.Type, name string) Value {
	st := t.Underlying().(*types.Struct)
	s := v.(Struct)
	for i := 0; i < st.NumFields(); i++ {
		if st.Field(i).Name() == name {
			return s[i]
		}
	}
	panic(engineError{"no field " + name + " in " + t.String()})
}

// newIter builds an iterator over ents restricted to the bounds in opts.
func (p *Path) newIter(ents []pEntry, opts Value, owner *pDB) Value {
	it := &pIter{ents: ents, pos: -1, owner: owner}
	if op, ok := opts.(*Value); ok && op != nil && *op != nil {
		ot := p.eng.namedType(pebblePkg, "IterOptions")
		lo := p.structField(*op, ot, "LowerBound")
		hi := p.structField(*op, ot, "UpperBound")
		i, j := 0, len(ents)
		if s, ok := lo.([]Value); ok && s != nil {
			i, _ = p.pLocate(ents, p.keyTerms(s))
		}
		if s, ok := hi.([]Value); ok && s != nil {
			j, _ = p.pLocate(ents, p.keyTerms(s))
		}
		if i > j {
			i = j
		}
		it.ents = ents[i:j]
	}
	return p.newPObj("Iterator", it)
}

func (p *Path) getFrom(ents []pEntry, key Value) Value {
	k := p.keyTerms(key)
	i, found := p.pLocate(ents, k)
	if !found {
		return Tuple{[]Value(nil), Iface{}, p.sentinelError(pebblePkg + ".ErrNotFound")}
	}
	v := ents[i].v
	if s, ok := v.([]Value); ok {
		v = p.termsToSlice(p.sliceTerms(s))
	}
	closerT := p.eng.namedType("io", "nopCloser")
	return Tuple{v, Iface{T: closerT, V: Struct{Iface{}}}, Iface{}}
}

func init() {
	globalModels[pebblePkg+".DefaultComparer"] = func(p *Path, t types.Type) Value {
		// *Comparer whose function fields are identity-only sentinels
		ct := t.(*types.Pointer).Elem()
		st := ct.Underlying().(*types.Struct)
		s := make(Struct, st.NumFields())
		for i := 0; i < st.NumFields(); i++ {
			f := st.Field(i)
			if _, ok := f.Type().Underlying().(*types.Signature); ok {
				name := "pebble.DefaultComparer." + f.Name()
				s[i] = &NativeFunc{Name: name, F: func(p *Path, g *Goroutine, args []Value) Value {
					panic(unsupported{"call of " + name + " (identity-only sentinel)"})
				}}
			} else if isString(f.Type()) {
				s[i] = "leveldb.BytewiseComparator"
			} else {
				s[i] = p.zero(f.Type())
			}
		}
		cell := new(Value)
		*cell = s
		return cell
	}
	for _, n := range []string{"NoSync", "Sync"} {
		n := n
		globalModels[pebblePkg+"."+n] = func(p *Path, t types.Type) Value { return &Opaque{Tag: "pebble." + n} }
	}
	regNoop("(*" + pebblePkg + ".LevelOptions).EnsureDefaults")

	reg(verifPkg+".YieldAtDB", func(p *Path, _ *frame, a []Value) Value {
		p.yieldAtDB = p.branch(p.boolArg(a[0]))
		return nil
	})
	reg(verifPkg+".SameFunc", func(p *Path, _ *frame, a []Value) Value {
		x, y := a[0].(Iface).V, a[1].(Iface).V
		return p.ctx.Bool(x == y)
	})

	P := "(*" + pebblePkg + "."
	reg(pebblePkg+".Open", func(p *Path, _ *frame, a []Value) Value {
		dir, _ := p.concreteString(a[0])
		// the model is only valid for the bytewise comparer with whole-key Split
		if op, ok := a[1].(*Value); ok && op != nil {
			ot := p.eng.namedType(pebblePkg, "Options")
			cmp := p.structField(*op, ot, "Comparer")
			if cp, ok := cmp.(*Value); ok && cp != nil {
				ct := p.eng.namedType(pebblePkg, "Comparer")
				cf := p.structField(*cp, ct, "Compare")
				if nf, ok := cf.(*NativeFunc); !ok || nf.Name != "pebble.DefaultComparer.Compare" {
					panic(unsupported{"pebble.Open with a non-default comparer: the Pebble model does not apply"})
				}
				sf := p.structField(*cp, ct, "Split")
				if fn, ok := sf.(interface{ String() string }); !ok || fn.String() != regattaMod+"/pebble.split" {
					panic(unsupported{"pebble.Open: Split is not regatta's whole-key split"})
				}
			}
			if fsv := p.structField(*op, ot, "FS"); !isNilPtr(fsv) {
				// Open starts with FS.MkdirAll(dirname) issued through the caller's FS:
				// a harness FS wrapper sees it (a crash point in front of Pebble's own
				// creation and sync of the directory)
				if itf, ok := fsv.(Iface); ok && itf.T != nil {
					if _, isModel := itf.V.(*NativeObj); !isModel {
						if e := p.callMethod(fsv, "MkdirAll", dir, p.ctx.BV(0o755, 32)); !isNilPtr(e) {
							return Tuple{(*Value)(nil), e}
						}
					}
				}
				db, err := p.fsOpenPebble(fsv, dir)
				if err != nil {
					return Tuple{(*Value)(nil), err}
				}
				if db != nil {
					return Tuple{p.newPObj("DB", db), Iface{}}
				}
			}
		}
		return Tuple{p.newPObj("DB", &pDB{dir: dir}), Iface{}}
	})
	reg(P+"DB).NewBatch", func(p *Path, _ *frame, a []Value) Value {
		db := pData[*pDB](p, a[0], "DB.NewBatch")
		p.yieldAtDBOp()
		if db.closed {
			p.pebblePanicClosed()
		}
		return p.newPObj("Batch", &pBatch{db: db})
	})
	reg(P+"DB).NewIndexedBatch", func(p *Path, _ *frame, a []Value) Value {
		db := pData[*pDB](p, a[0], "DB.NewIndexedBatch")
		p.yieldAtDBOp()
		if db.closed {
			p.pebblePanicClosed()
		}
		return p.newPObj("Batch", &pBatch{db: db, indexed: true})
	})
	reg(P+"DB).NewSnapshot", func(p *Path, _ *frame, a []Value) Value {
		db := pData[*pDB](p, a[0], "DB.NewSnapshot")
		p.yieldAtDBOp()
		if db.closed {
			p.pebblePanicClosed()
		}
		return p.newPObj("Snapshot", &pSnapshot{db: db, ents: db.ents})
	})
	reg(P+"DB).NewIter", func(p *Path, _ *frame, a []Value) Value {
		db := pData[*pDB](p, a[0], "DB.NewIter")
		p.yieldAtDBOp()
		if db.closed {
			p.pebblePanicClosed()
		}
		return p.newIter(db.ents, a[1], db)
	})
	reg(P+"DB).Get", func(p *Path, _ *frame, a []Value) Value {
		db := pData[*pDB](p, a[0], "DB.Get")
		p.yieldAtDBOp()
		if db.closed {
			p.pebblePanicClosed()
		}
		return p.getFrom(db.ents, a[1])
	})
	reg(P+"DB).Set", func(p *Path, _ *frame, a []Value) Value {
		db := pData[*pDB](p, a[0], "DB.Set")
		p.yieldAtDBOp()
		if db.closed {
			p.pebblePanicClosed()
		}
		db.ents = applyOp(p, db.ents, pOp{kind: 0, k: p.keyTerms(a[1]), v: p.valCopy(a[2])})
		db.gen++
		db.syncInode()
		return Iface{}
	})
	reg(P+"DB).Delete", func(p *Path, _ *frame, a []Value) Value {
		db := pData[*pDB](p, a[0], "DB.Delete")
		p.yieldAtDBOp()
		if db.closed {
			p.pebblePanicClosed()
		}
		db.ents = applyOp(p, db.ents, pOp{kind: 1, k: p.keyTerms(a[1])})
		db.gen++
		db.syncInode()
		return Iface{}
	})
	reg(P+"DB).Flush", func(p *Path, _ *frame, a []Value) Value {
		db := pData[*pDB](p, a[0], "DB.Flush")
		p.yieldAtDBOp()
		if db.closed {
			p.pebblePanicClosed()
		}
		db.resurrect(p)
		db.flushed = db.ents
		p.fsPebbleFlushed(db)
		return Iface{}
	})
	reg(P+"DB).Close", func(p *Path, _ *frame, a []Value) Value {
		db := pData[*pDB](p, a[0], "DB.Close")
		if db.closed {
			p.pebblePanicClosed()
		}
		db.closed = true
		return Iface{}
	})
	reg(P+"DB).Metrics", func(p *Path, _ *frame, a []Value) Value { return (*Value)(nil) })

	reg(P+"Batch).Indexed", func(p *Path, _ *frame, a []Value) Value {
		return p.ctx.Bool(pData[*pBatch](p, a[0], "Batch.Indexed").indexed)
	})
	batchWrite := func(kind int) intrinsic {
		return func(p *Path, _ *frame, a []Value) Value {
			b := pData[*pBatch](p, a[0], "Batch write")
			if b.closed || b.committed {
				p.goPanic(p.newError("pebble: batch already committing/closed"))
			}
			op := pOp{kind: kind, k: p.keyTerms(a[1])}
			switch kind {
			case 0:
				op.v = p.valCopy(a[2])
			case 2:
				op.end = p.keyTerms(a[2])
			}
			b.ops = append(b.ops, op)
			return Iface{}
		}
	}
	reg(P+"Batch).Set", batchWrite(0))
	reg(P+"Batch).Delete", batchWrite(1))
	reg(P+"Batch).DeleteRange", batchWrite(2))
	reg(P+"Batch).SingleDelete", batchWrite(3))
	reg(P+"Batch).Apply", func(p *Path, _ *frame, a []Value) Value {
		b := pData[*pBatch](p, a[0], "Batch.Apply")
		src := pData[*pBatch](p, a[1], "Batch.Apply src")
		b.ops = append(b.ops, src.ops...)
		return Iface{}
	})
	// Batch.Len: the encoded size. With verif.BatchSizes(true) an arbitrary
	// non-decreasing value (a size threshold can be crossed after any write,
	// without megabytes of data); otherwise the header plus key/value bytes.
	reg(P+"Batch).Len", func(p *Path, _ *frame, a []Value) Value {
		b := pData[*pBatch](p, a[0], "Batch.Len")
		if p.batchSizes {
			t := p.fresh("batchlen", 64)
			p.assume(p.ctx.And(p.ctx.Ule(p.ctx.BV(12, 64), t), p.ctx.Ult(t, p.ctx.BV(1<<40, 64))))
			if b.lenTerm != nil {
				p.assume(p.ctx.Ule(b.lenTerm, t))
			}
			b.lenTerm = t
			return t
		}
		n := 12
		for _, op := range b.ops {
			n += 3 + len(op.k) + len(op.end)
			if vs, ok := op.v.([]Value); ok {
				n += len(vs)
			}
		}
		return p.ctx.BV(uint64(n), 64)
	})
	reg(verifPkg+".BatchSizes", func(p *Path, _ *frame, a []Value) Value {
		p.batchSizes = p.branch(p.boolArg(a[0]))
		return nil
	})
	// verif.SpontaneousFlush(true): Pebble flushes its memtable whenever it likes
	// (WAL disabled: that is the only way committed data becomes durable without
	// an explicit Flush) - after any commit the committed state may be durable.
	reg(verifPkg+".SpontaneousFlush", func(p *Path, _ *frame, a []Value) Value {
		p.spontFlush = p.branch(p.boolArg(a[0]))
		return nil
	})
	reg(P+"Batch).Commit", func(p *Path, _ *frame, a []Value) Value {
		b := pData[*pBatch](p, a[0], "Batch.Commit")
		p.yieldAtDBOp()
		if b.db.closed {
			p.pebblePanicClosed()
		}
		if b.committed {
			p.goPanic(p.newError("pebble: batch already committing"))
		}
		hasSingle := false
		for _, op := range b.ops {
			if op.kind == 3 {
				hasSingle = true
			}
		}
		if !hasSingle {
			b.db.ents = b.currentView(p)
		} else {
			// SingleDelete cancels only the newest Set of its key: if the key was
			// written more than once since it was last absent, the value below comes
			// back when the memtable is flushed
			v := b.db.ents
			for _, op := range b.ops {
				if op.kind == 3 {
					if i, found := p.pLocate(v, op.k); found && v[i].sets > 1 {
						b.db.ghosts = append(b.db.ghosts, pEntry{k: v[i].k, v: v[i].prev, sets: v[i].sets - 1})
					}
				}
				v = applyOp(p, v, op)
			}
			b.db.ents = v
		}
		if len(b.db.ghosts) > 0 {
			// a regular delete covers everything below it, pending values included
			for _, op := range b.ops {
				if op.kind != 1 && op.kind != 2 {
					continue
				}
				var keep []pEntry
				for _, g := range b.db.ghosts {
					var covered *Term
					if op.kind == 1 {
						covered = p.bytesEq(op.k, g.k)
					} else {
						covered = p.ctx.And(p.ctx.Not(p.bytesLess(g.k, op.k)), p.bytesLess(g.k, op.end))
					}
					if !p.branch(covered) {
						keep = append(keep, g)
					}
				}
				b.db.ghosts = keep
			}
		}
		b.db.gen++
		b.db.commits++
		b.committed = true
		b.db.syncInode()
		if p.spontFlush && p.chooseFree("memtable-flush", 2) == 1 {
			b.db.resurrect(p)
			b.db.flushed = b.db.ents
			p.fsPebbleFlushed(b.db)
		}
		return Iface{}
	})
	reg(P+"Batch).Close", func(p *Path, _ *frame, a []Value) Value {
		b := pData[*pBatch](p, a[0], "Batch.Close")
		b.closed = true
		return Iface{}
	})
	reg(P+"Batch).Empty", func(p *Path, _ *frame, a []Value) Value {
		return p.ctx.Bool(len(pData[*pBatch](p, a[0], "Batch.Empty").ops) == 0)
	})
	reg(P+"Batch).Count", func(p *Path, _ *frame, a []Value) Value {
		return p.ctx.BV(uint64(len(pData[*pBatch](p, a[0], "Batch.Count").ops)), 32)
	})
	reg(P+"Batch).Get", func(p *Path, _ *frame, a []Value) Value {
		b := pData[*pBatch](p, a[0], "Batch.Get")
		if !b.indexed {
			return Tuple{[]Value(nil), Iface{}, p.sentinelError(pebblePkg + ".ErrNotIndexed")}
		}
		if b.db.closed {
			p.pebblePanicClosed()
		}
		return p.getFrom(b.currentView(p), a[1])
	})
	reg(P+"Batch).NewIter", func(p *Path, _ *frame, a []Value) Value {
		b := pData[*pBatch](p, a[0], "Batch.NewIter")
		if !b.indexed {
			return p.newPObj("Iterator", &pIter{bad: true, pos: -1})
		}
		if b.db.closed {
			p.pebblePanicClosed()
		}
		return p.newIter(b.currentView(p), a[1], b.db)
	})

	reg(P+"Snapshot).NewIter", func(p *Path, _ *frame, a []Value) Value {
		s := pData[*pSnapshot](p, a[0], "Snapshot.NewIter")
		if s.closed || s.db.closed {
			p.pebblePanicClosed()
		}
		return p.newIter(s.ents, a[1], s.db)
	})
	reg(P+"Snapshot).Get", func(p *Path, _ *frame, a []Value) Value {
		s := pData[*pSnapshot](p, a[0], "Snapshot.Get")
		if s.closed || s.db.closed {
			p.pebblePanicClosed()
		}
		return p.getFrom(s.ents, a[1])
	})
	reg(P+"Snapshot).Close", func(p *Path, _ *frame, a []Value) Value {
		s := pData[*pSnapshot](p, a[0], "Snapshot.Close")
		if s.closed {
			p.pebblePanicClosed()
		}
		s.closed = true
		return Iface{}
	})

	itValid := func(it *pIter) bool { return !it.bad && !it.closed && it.pos >= 0 && it.pos < len(it.ents) }
	reg(P+"Iterator).First", func(p *Path, _ *frame, a []Value) Value {
		it := pData[*pIter](p, a[0], "Iterator.First")
		it.pos = 0
		return p.ctx.Bool(itValid(it))
	})
	reg(P+"Iterator).Next", func(p *Path, _ *frame, a []Value) Value {
		it := pData[*pIter](p, a[0], "Iterator.Next")
		if it.pos < len(it.ents) {
			it.pos++
		}
		return p.ctx.Bool(itValid(it))
	})
	reg(P+"Iterator).Valid", func(p *Path, _ *frame, a []Value) Value {
		return p.ctx.Bool(itValid(pData[*pIter](p, a[0], "Iterator.Valid")))
	})
	reg(P+"Iterator).Key", func(p *Path, _ *frame, a []Value) Value {
		it := pData[*pIter](p, a[0], "Iterator.Key")
		if !itValid(it) {
			return []Value(nil)
		}
		return p.termsToSlice(it.ents[it.pos].k)
	})
	reg(P+"Iterator).Value", func(p *Path, _ *frame, a []Value) Value {
		it := pData[*pIter](p, a[0], "Iterator.Value")
		if !itValid(it) {
			return []Value(nil)
		}
		v := it.ents[it.pos].v
		if s, ok := v.([]Value); ok {
			return p.termsToSlice(p.sliceTerms(s))
		}
		return v
	})
	reg(P+"Iterator).SeekPrefixGE", func(p *Path, _ *frame, a []Value) Value {
		it := pData[*pIter](p, a[0], "Iterator.SeekPrefixGE")
		if it.bad || it.closed {
			return p.ctx.F
		}
		// Split(key) == len(key): the prefix is the whole key, so the seek
		// succeeds exactly when the key itself is present
		i, found := p.pLocate(it.ents, p.keyTerms(a[1]))
		if found {
			it.pos = i
		} else {
			it.pos = len(it.ents)
		}
		return p.ctx.Bool(found)
	})
	reg(P+"Iterator).SeekGE", func(p *Path, _ *frame, a []Value) Value {
		it := pData[*pIter](p, a[0], "Iterator.SeekGE")
		if it.bad || it.closed {
			return p.ctx.F
		}
		i, _ := p.pLocate(it.ents, p.keyTerms(a[1]))
		it.pos = i
		return p.ctx.Bool(itValid(it))
	})
	reg(P+"Iterator).Close", func(p *Path, _ *frame, a []Value) Value {
		it := pData[*pIter](p, a[0], "Iterator.Close")
		it.closed = true
		if it.bad {
			return p.sentinelError(pebblePkg + ".ErrNotIndexed")
		}
		return Iface{}
	})
	reg(P+"Iterator).Error", func(p *Path, _ *frame, a []Value) Value {
		it := pData[*pIter](p, a[0], "Iterator.Error")
		if it.bad {
			return p.sentinelError(pebblePkg + ".ErrNotIndexed")
		}
		return Iface{}
	})
}
