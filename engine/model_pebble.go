package main

// M1 — Pebble as a sorted byte-string map with batches, snapshots, iterators.

import (
	"go/types"
)

const pebblePkg = "github.com/cockroachdb/pebble"

func init() {
	globalModels[pebblePkg+".DefaultComparer"] = func(p *Path, t types.Type) Value {
		// *Comparer whose function fields are identity-only sentinels
		ct := t.(*types.Pointer).Elem()
		st := ct.Underlying().(*types.Struct)
		s := make(Struct, st.NumFields())
		for i := 0; i < st.NumFields(); i++ {
			f := st.Field(i)
			if _, ok := f.Type().Underlying().(*types.Signature); ok {
				name := "pebble.DefaultComparer." + f.Name()
				s[i] = &NativeFunc{Name: name, F: func(p *Path, g *Goroutine, args []Value) Value {
					panic(unsupported{"call of " + name + " (identity-only sentinel)"})
				}}
			} else if isString(f.Type()) {
				s[i] = "leveldb.BytewiseComparator"
			} else {
				s[i] = p.zero(f.Type())
			}
		}
		cell := new(Value)
		*cell = s
		return cell
	}
	regNoop("(*" + pebblePkg + ".LevelOptions).EnsureDefaults")

	reg(verifPkg+".SameFunc", func(p *Path, _ *frame, a []Value) Value {
		x, y := a[0].(Iface).V, a[1].(Iface).V
		return p.ctx.Bool(x == y)
	})
}
