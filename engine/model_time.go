package main

// time: a symbolic, monotone, non-decreasing clock. time.Now() returns
// Time{wall: 0, ext: <seconds, symbolic>, loc: nil}; the methods of time.Time
// are interpreted from the real source over that value.

import "go/types"

func (p *Path) now() Value {
	t := p.fresh("now", 64)
	c := p.ctx
	// keep instants in a range where second arithmetic cannot overflow
	// instants live in a 2^35 s (~1089 year) window: second arithmetic cannot
	// overflow and every instant stays representable in JSON natively
	p.assume(c.And(c.Sle(c.BV(1<<36, 64), t), c.Slt(t, c.BV(1<<36+1<<35, 64))))
	if p.lastNow != nil {
		p.assume(c.Sle(p.lastNow, t))
	}
	p.lastNow = t
	p.recordSym("Now", t)
	tt := p.eng.namedType("time", "Time")
	s := p.zero(tt).(Struct)
	st := tt.Underlying().(*types.Struct)
	for i := 0; i < st.NumFields(); i++ {
		if st.Field(i).Name() == "ext" {
			s[i] = t
		}
	}
	return s
}

// timeAt: the time.Time value for second t of the model's clock.
func (p *Path) timeAt(t *Term) Value {
	tt := p.eng.namedType("time", "Time")
	s := p.zero(tt).(Struct)
	st := tt.Underlying().(*types.Struct)
	for i := 0; i < st.NumFields(); i++ {
		if st.Field(i).Name() == "ext" {
			s[i] = t
		}
	}
	return s
}

func (p *Path) instant() Value {
	t := p.fresh("inst", 64)
	c := p.ctx
	p.assume(c.And(c.Sle(c.BV(1<<36, 64), t), c.Slt(t, c.BV(1<<36+1<<35, 64))))
	p.recordSym("Instant", t)
	tt := p.eng.namedType("time", "Time")
	s := p.zero(tt).(Struct)
	st := tt.Underlying().(*types.Struct)
	for i := 0; i < st.NumFields(); i++ {
		if st.Field(i).Name() == "ext" {
			s[i] = t
		}
	}
	return s
}

func init() {
	reg(verifPkg+".Instant", func(p *Path, _ *frame, a []Value) Value { return p.instant() })
	reg("time.Now", func(p *Path, _ *frame, a []Value) Value { return p.now() })
	reg("time.Since", func(p *Path, _ *frame, a []Value) Value { return p.ctx.BV(0, 64) })
	reg("time.Sleep", func(p *Path, _ *frame, a []Value) Value { p.sleep(); return nil })
	reg("time.runtimeNano", func(p *Path, _ *frame, a []Value) Value { return p.ctx.BV(0, 64) })
}

// Tickers: time.NewTicker returns a ticker whose channel (capacity 1, as in
// the runtime) receives a value only when the harness calls verif.Tick().
func init() {
	reg("time.NewTicker", func(p *Path, _ *frame, a []Value) Value {
		tt := p.eng.namedType("time", "Ticker")
		st := tt.Underlying().(*types.Struct)
		s := p.zero(tt).(Struct)
		ch := p.makeChanOf(p.eng.namedType("time", "Time"))
		ch.cap = 1
		ch.name = "ticker.C"
		for i := 0; i < st.NumFields(); i++ {
			if st.Field(i).Name() == "C" {
				s[i] = ch
			}
		}
		p.tickers = append(p.tickers, ch)
		cell := new(Value)
		*cell = s
		return cell
	})
	regNoop("(*time.Ticker).Stop", "(*time.Ticker).Reset")
	reg(verifPkg+".Tick", func(p *Path, _ *frame, a []Value) Value {
		for _, ch := range p.tickers {
			if len(ch.buf) < ch.cap {
				ch.buf = append(ch.buf, p.zero(p.eng.namedType("time", "Time")))
			}
		}
		// time passes: everyone else runs until blocked
		p.sleep()
		return nil
	})
	reg(verifPkg+".NoDeadlock", func(p *Path, _ *frame, a []Value) Value {
		s, _ := p.concreteString(a[0])
		p.deadlockLabel = s
		return nil
	})
}
