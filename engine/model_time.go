package main

// time: a symbolic, monotone, non-decreasing clock. time.Now() returns
// Time{wall: 0, ext: <seconds, symbolic>, loc: nil}; the methods of time.Time
// are interpreted from the real source over that value.

import "go/types"

func (p *Path) now() Value {
	t := p.fresh("now", 64)
	c := p.ctx
	// keep instants in a range where second arithmetic cannot overflow
	// instants live in a 2^35 s (~1089 year) window: second arithmetic cannot
	// overflow and every instant stays representable in JSON natively
	p.assume(c.And(c.Sle(c.BV(1<<36, 64), t), c.Slt(t, c.BV(1<<36+1<<35, 64))))
	if p.lastNow != nil {
		p.assume(c.Sle(p.lastNow, t))
	}
	p.lastNow = t
	p.recordSym("Now", t)
	tt := p.eng.namedType("time", "Time")
	s := p.zero(tt).(Struct)
	st := tt.Underlying().(*types.Struct)
	for i := 0; i < st.NumFields(); i++ {
		if st.Field(i).Name() == "ext" {
			s[i] = t
		}
	}
	return s
}

func (p *Path) instant() Value {
	t := p.fresh("inst", 64)
	c := p.ctx
	p.assume(c.And(c.Sle(c.BV(1<<36, 64), t), c.Slt(t, c.BV(1<<36+1<<35, 64))))
	p.recordSym("Instant", t)
	tt := p.eng.namedType("time", "Time")
	s := p.zero(tt).(Struct)
	st := tt.Underlying().(*types.Struct)
	for i := 0; i < st.NumFields(); i++ {
		if st.Field(i).Name() == "ext" {
			s[i] = t
		}
	}
	return s
}

func init() {
	reg(verifPkg+".Instant", func(p *Path, _ *frame, a []Value) Value { return p.instant() })
	reg("time.Now", func(p *Path, _ *frame, a []Value) Value { return p.now() })
	reg("time.Since", func(p *Path, _ *frame, a []Value) Value { return p.ctx.BV(0, 64) })
	reg("time.Sleep", func(p *Path, _ *frame, a []Value) Value { p.yield(); return nil })
	reg("time.runtimeNano", func(p *Path, _ *frame, a []Value) Value { return p.ctx.BV(0, 64) })
}
