package main

// M5/M7 odds and ends: gRPC status, vfs handles, time.

import (
	"fmt"
	"go/types"
)

const (
	vfsPkg    = "github.com/cockroachdb/pebble/vfs"
	statusPkg = "google.golang.org/grpc/status"
	codesPkg  = "google.golang.org/grpc/codes"
)

func (p *Path) statusErr(code *Term, msg string) Value {
	e := p.newError("rpc error: " + msg)
	cell := e.(Iface).V.(*Value)
	p.objs[fmt.Sprintf("grpccode:%p", cell)] = code
	return e
}

func (p *Path) statusCode(err Value, depth int) *Term {
	itf, ok := err.(Iface)
	if !ok || itf.T == nil {
		return p.ctx.BV(0, 32) // codes.OK
	}
	if cell, ok := itf.V.(*Value); ok {
		if c, ok := p.objs[fmt.Sprintf("grpccode:%p", cell)]; ok {
			return c.(*Term)
		}
	}
	if depth < 8 {
		for _, w := range p.errUnwrap(err) {
			if c := p.statusCode(w, depth+1); !(c.IsConst() && c.K == 2) {
				return c
			}
		}
	}
	return p.ctx.BV(2, 32) // codes.Unknown
}

func init() {
	globalModels[vfsPkg+".Default"] = func(p *Path, t types.Type) Value {
		return Iface{T: types.NewPointer(p.eng.namedType(vfsPkg, "MemFS")), V: p.newMemFS(false)}
	}
	reg(statusPkg+".Error", func(p *Path, _ *frame, a []Value) Value {
		msg, _ := p.concreteString(a[1])
		c := p.asTerm(a[0], "status.Error code")
		if c.IsConst() && c.K == 0 {
			return Iface{}
		}
		return p.statusErr(c, msg)
	})
	reg(statusPkg+".Errorf", func(p *Path, _ *frame, a []Value) Value {
		format, _ := p.concreteString(a[1])
		c := p.asTerm(a[0], "status.Errorf code")
		if c.IsConst() && c.K == 0 {
			return Iface{}
		}
		return p.statusErr(c, p.sprintf(format, a[2]).(string))
	})
	reg(statusPkg+".Code", func(p *Path, _ *frame, a []Value) Value {
		return p.statusCode(a[0], 0)
	})

	// vfs: handles only (the crash-FS model extends these)
	reg(vfsPkg+".NewMem", func(p *Path, _ *frame, a []Value) Value {
		return p.newMemFS(false)
	})
	reg(vfsPkg+".NewStrictMem", func(p *Path, _ *frame, a []Value) Value {
		return p.newMemFS(true)
	})
	reg(vfsPkg+".WithDiskHealthChecks", func(p *Path, _ *frame, a []Value) Value {
		return Tuple{a[0], Iface{}}
	})
}

// newMemFS returns a vfs.FS value backed by the engine's FS model.
func (p *Path) newMemFS(strict bool) Value {
	t := types.NewPointer(p.eng.namedType(vfsPkg, "MemFS"))
	return &NativeObj{Kind: "vfs.MemFS", T: t, Data: newFSModel(strict)}
}

// snappy: the compressor inside snapshotFile is replaced by an identity byte
// pipe (compression kernels are not encodable; declined in DESIGN §5).
const snappyPkg = "github.com/klauspost/compress/snappy"

func (p *Path) callMethod(recv Value, name string, args ...Value) Value {
	itf, ok := recv.(Iface)
	if !ok || itf.T == nil {
		panic(unsupported{"method call on nil/non-interface value in a model"})
	}
	if no, ok := itf.V.(*NativeObj); ok && no.Methods != nil {
		if f, ok := no.Methods[name]; ok {
			return f.F(p, p.cur, append([]Value{itf.V}, args...))
		}
	}
	f := p.eng.lookupMethod(itf.T, name)
	if f == nil {
		panic(unsupported{fmt.Sprintf("%s has no method %s", itf.T, name)})
	}
	return p.callSSA(nil, f, append([]Value{itf.V}, args...), nil)
}

func init() {
	for _, ctor := range []string{"NewBufferedWriter", "NewWriter"} {
		reg(snappyPkg+"."+ctor, func(p *Path, _ *frame, a []Value) Value {
			return &NativeObj{Kind: "snappy.Writer", T: types.NewPointer(p.eng.namedType(snappyPkg, "Writer")), Data: a[0]}
		})
	}
	reg(snappyPkg+".NewReader", func(p *Path, _ *frame, a []Value) Value {
		return &NativeObj{Kind: "snappy.Reader", T: types.NewPointer(p.eng.namedType(snappyPkg, "Reader")), Data: a[0]}
	})
	W := "(*github.com/klauspost/compress/s2.Writer)."
	reg(W+"Write", func(p *Path, _ *frame, a []Value) Value {
		return p.callMethod(pData[Value](p, a[0], "snappy.Writer"), "Write", a[1])
	})
	reg(W+"Flush", func(p *Path, _ *frame, a []Value) Value { return Iface{} })
	reg(W+"Close", func(p *Path, _ *frame, a []Value) Value { return Iface{} })
	reg(W+"Reset", func(p *Path, _ *frame, a []Value) Value {
		a[0].(*NativeObj).Data = a[1]
		return nil
	})
	R := "(*github.com/klauspost/compress/s2.Reader)."
	reg(R+"Read", func(p *Path, _ *frame, a []Value) Value {
		buf, _ := a[1].([]Value)
		if p.shortReads && len(buf) > 1 {
			// io.Reader contract: a Read may return fewer bytes than asked for
			// (the real decompressor does so at every block boundary)
			switch p.chooseFree("shortread", 3) {
			case 1:
				buf = buf[:1]
			case 2:
				buf = buf[:len(buf)/2+len(buf)%2]
			}
		}
		return p.callMethod(pData[Value](p, a[0], "snappy.Reader"), "Read", buf)
	})
	reg(verifPkg+".ShortReads", func(p *Path, _ *frame, a []Value) Value {
		p.shortReads = p.branch(p.boolArg(a[0]))
		return nil
	})
	reg(R+"Reset", func(p *Path, _ *frame, a []Value) Value {
		a[0].(*NativeObj).Data = a[1]
		return nil
	})
}

// backoff (M7): Retry calls f until it returns nil, at most twice.
const backoffPkg = "github.com/cenkalti/backoff/v4"

func init() {
	reg(backoffPkg+".NewExponentialBackOff", func(p *Path, _ *frame, a []Value) Value {
		cell := new(Value)
		*cell = p.zero(p.eng.namedType(backoffPkg, "ExponentialBackOff"))
		return cell
	})
	reg(backoffPkg+".Permanent", func(p *Path, _ *frame, a []Value) Value { return a[0] })
	reg(backoffPkg+".Retry", func(p *Path, caller *frame, a []Value) Value {
		var err Value = Iface{}
		for i := 0; i < 2; i++ {
			err = p.call(caller, a[0], nil)
			if isNilPtr(err) {
				return Iface{}
			}
		}
		return err
	})
}

// Files for code that reads configuration from disk (security.TLSInfo):
// verif.TempFile(content) registers a file; os.ReadFile returns its content.
// PEM decoding and certificate pools are opaque: the fake files hold no PEM
// block, as natively.
func init() {
	reg(verifPkg+".TempFile", func(p *Path, _ *frame, a []Value) Value {
		content, ok := p.concreteString(a[0])
		if !ok {
			panic(unsupported{"TempFile with symbolic content"})
		}
		p.nextID++
		name := fmt.Sprintf("/tmp/vh-%d", p.nextID)
		p.objs["file:"+name] = content
		return name
	})
	reg("os.ReadFile", func(p *Path, _ *frame, a []Value) Value {
		name, ok := p.concreteString(a[0])
		if !ok {
			panic(unsupported{"os.ReadFile of a symbolic name"})
		}
		c, ok := p.objs["file:"+name]
		if !ok {
			return Tuple{[]Value(nil), p.fsErr("NotExist", name)}
		}
		return Tuple{p.bytesToSlice([]byte(c.(string))), Iface{}}
	})
	reg("encoding/pem.Decode", func(p *Path, _ *frame, a []Value) Value {
		return Tuple{(*Value)(nil), a[0]}
	})
	reg("crypto/x509.NewCertPool", func(p *Path, _ *frame, a []Value) Value {
		return &NativeObj{Kind: "x509.CertPool", T: types.NewPointer(p.eng.namedType("crypto/x509", "CertPool"))}
	})
}
