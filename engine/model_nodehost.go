package main

// M2 — dragonboat.NodeHost as "state machines behind a totally ordered log".
// A proposal is appended at the shard's next index and applied by the
// registered state machine's real Update; reads call its real Lookup.
// Outcomes are definite (no timeouts that commit later).

import (
	"fmt"
	"go/types"
)

const (
	dbPkg     = "github.com/lni/dragonboat/v4"
	dbsmPkg   = "github.com/lni/dragonboat/v4/statemachine"
	clientPkg = "github.com/lni/dragonboat/v4/client"
)

type shardModel struct {
	id      uint64
	sm      Iface
	next    *Term
	stopped bool
	log     []Value // proposed commands, in order
}

type nhModel struct {
	shards       map[uint64]*shardModel
	yieldAtStore bool
	proposals    int
	started      []uint64
	stoppedIDs   []uint64
	infoShards   []uint64
}

func (p *Path) nhOf(v Value) *nhModel {
	return pData[*nhModel](p, v, "NodeHost")
}

func (p *Path) setField(st Struct, t types.Type, name string, v Value) {
	u := t.Underlying().(*types.Struct)
	for i := 0; i < u.NumFields(); i++ {
		if u.Field(i).Name() == name {
			st[i] = v
			return
		}
	}
	panic(engineError{"no field " + name + " in " + t.String()})
}

func (p *Path) nhShard(nh *nhModel, id Value) *shardModel {
	t := p.asTerm(id, "shard id")
	if !t.IsConst() {
		// pick among the registered shards
		for sid, sh := range nh.shards {
			_ = sid
			if p.branch(p.ctx.Eq(t, p.ctx.BV(sh.id, 64))) {
				return sh
			}
		}
		return nil
	}
	return nh.shards[t.K]
}

func (p *Path) smCall(sh *shardModel, method string, args ...Value) Value {
	f := p.eng.lookupMethod(sh.sm.T, method)
	if f == nil {
		panic(unsupported{fmt.Sprintf("state machine %s has no method %s", sh.sm.T, method)})
	}
	return p.callSSA(nil, f, append([]Value{sh.sm.V}, args...), nil)
}

func init() {
	globalModels[dbPkg+".DefaultNodeHostInfoOption"] = func(p *Path, t types.Type) Value { return p.zero(t) }
	N := "(*" + dbPkg + ".NodeHost)."
	reg(verifPkg+".NewNodeHost", func(p *Path, _ *frame, a []Value) Value {
		return &NativeObj{Kind: "NodeHost", T: types.NewPointer(p.eng.namedType(dbPkg, "NodeHost")), Data: &nhModel{shards: map[uint64]*shardModel{}}}
	})
	reg(verifPkg+".StartShard", func(p *Path, _ *frame, a []Value) Value {
		nh := p.nhOf(a[0])
		id := uint64(p.concreteInt(a[1], "shard id"))
		base := p.asTerm(a[2], "first index")
		nh.shards[id] = &shardModel{id: id, sm: a[3].(Iface), next: base}
		return nil
	})
	reg(verifPkg+".YieldAtStore", func(p *Path, _ *frame, a []Value) Value {
		p.nhOf(a[0]).yieldAtStore = p.branch(p.boolArg(a[1]))
		return nil
	})
	reg(N+"GetNoOPSession", func(p *Path, _ *frame, a []Value) Value {
		return &NativeObj{Kind: "Session", T: types.NewPointer(p.eng.namedType(clientPkg, "Session")), Data: a[1]}
	})
	reg(N+"SyncPropose", func(p *Path, _ *frame, a []Value) Value {
		nh := p.nhOf(a[0])
		if nh.yieldAtStore {
			p.yield()
		}
		resT := p.eng.namedType(dbsmPkg, "Result")
		sess := pData[Value](p, a[2], "Session")
		sh := p.nhShard(nh, sess)
		if sh == nil || sh.stopped {
			return Tuple{p.zero(resT), p.sentinelError(dbPkg + ".ErrShardNotFound")}
		}
		if c := p.ctxOf(a[1]); c != nil && !isNilPtr(c.err) {
			return Tuple{p.zero(resT), c.err}
		}
		nh.proposals++
		idx := sh.next
		sh.next = p.ctx.Add(sh.next, p.ctx.BV(1, 64))
		sh.log = append(sh.log, a[3])
		entT := p.eng.namedType(dbsmPkg, "Entry")
		ent := p.zero(entT).(Struct)
		p.setField(ent, entT, "Index", idx)
		p.setField(ent, entT, "Cmd", a[3])
		out := p.smCall(sh, "Update", []Value{ent})
		tu := out.(Tuple)
		if !isNilPtr(tu[1]) {
			// dragonboat panics when Update fails; surface it as the proposal's error
			return Tuple{p.zero(resT), tu[1]}
		}
		ents := tu[0].([]Value)
		res := p.structField(ents[0], entT, "Result")
		return Tuple{copyVal(res), Iface{}}
	})
	read := func(p *Path, a []Value, idArg, qArg int) Value {
		nh := p.nhOf(a[0])
		if nh.yieldAtStore {
			p.yield()
		}
		if t, ok := a[idArg].(*Term); ok && t.IsConst() && nh.shards[t.K] == nil {
			for _, r := range nh.infoShards {
				if r != t.K {
					continue
				}
				if q, ok := a[qArg].(Iface); ok && q.T != nil && q.T.String() == regattaMod+"/storage/table/fsm.PathRequest" {
					rt := p.eng.namedType(regattaMod+"/storage/table/fsm", "PathResponse")
					resp := p.zero(rt).(Struct)
					p.setField(resp, rt, "Path", fmt.Sprintf("/data/t-%d", t.K))
					cell := new(Value)
					*cell = resp
					return Tuple{Iface{T: types.NewPointer(rt), V: cell}, Iface{}}
				}
				panic(unsupported{"read on a shard registered with RunShardIDs"})
			}
		}
		sh := p.nhShard(nh, a[idArg])
		if sh == nil || sh.stopped {
			return Tuple{Iface{}, p.sentinelError(dbPkg + ".ErrShardNotFound")}
		}
		return p.smCall(sh, "Lookup", a[qArg])
	}
	reg(N+"StaleRead", func(p *Path, _ *frame, a []Value) Value { return read(p, a, 1, 2) })
	reg(N+"SyncRead", func(p *Path, _ *frame, a []Value) Value { return read(p, a, 2, 3) })
	reg(dbPkg+".IsTempError", func(p *Path, _ *frame, a []Value) Value {
		for _, n := range []string{"ErrSystemBusy", "ErrShardClosed", "ErrShardNotInitialized", "ErrShardNotReady", "ErrTimeout", "ErrClosed", "ErrAborted"} {
			if p.errorsIs(a[0], p.sentinelError(dbPkg+"."+n), 0) {
				return p.ctx.T
			}
		}
		return p.ctx.F
	})
	reg(N+"HasNodeInfo", func(p *Path, _ *frame, a []Value) Value { return p.ctx.F })
	reg(N+"StartOnDiskReplica", func(p *Path, _ *frame, a []Value) Value {
		nh := p.nhOf(a[0])
		id := uint64(0)
		if cfg, ok := a[4].(Struct); ok {
			if t, ok := p.structField(cfg, p.eng.namedType("github.com/lni/dragonboat/v4/config", "Config"), "ShardID").(*Term); ok && t.IsConst() {
				id = t.K
			}
		}
		for _, r := range nh.infoShards {
			if r == id && id != 0 {
				return p.sentinelError(dbPkg + ".ErrShardAlreadyExist")
			}
		}
		nh.started = append(nh.started, id)
		if id != 0 {
			nh.infoShards = append(nh.infoShards, id)
		}
		return Iface{}
	})
	// verif.RunShardIDs(nh, ids): shards running on this host (without a state
	// machine of their own: reads of fsm.PathRequest are answered with a path)
	reg(verifPkg+".RunShardIDs", func(p *Path, _ *frame, a []Value) Value {
		nh := p.nhOf(a[0])
		ids, _ := a[1].([]Value)
		for _, v := range ids {
			nh.infoShards = append(nh.infoShards, uint64(p.concreteInt(v, "RunShardIDs")))
		}
		return nil
	})
	idList := func(p *Path, ids []uint64) Value {
		out := make([]Value, len(ids))
		for i, id := range ids {
			out[i] = p.ctx.BV(id, 64)
		}
		return out
	}
	reg(verifPkg+".StartedShards", func(p *Path, _ *frame, a []Value) Value { return idList(p, p.nhOf(a[0]).started) })
	reg(verifPkg+".StoppedShards", func(p *Path, _ *frame, a []Value) Value { return idList(p, p.nhOf(a[0]).stoppedIDs) })
	reg(N+"GetNodeHostInfo", func(p *Path, _ *frame, a []Value) Value {
		nh := p.nhOf(a[0])
		it := p.eng.namedType(dbPkg, "NodeHostInfo")
		st := p.eng.namedType(dbPkg, "ShardInfo")
		info := p.zero(it).(Struct)
		var list []Value
		for _, id := range nh.infoShards {
			si := p.zero(st).(Struct)
			p.setField(si, st, "ShardID", p.ctx.BV(id, 64))
			list = append(list, si)
		}
		p.setField(info, it, "ShardInfoList", list)
		cell := new(Value)
		*cell = info
		return cell
	})
	reg(N+"StopShard", func(p *Path, _ *frame, a []Value) Value {
		nh := p.nhOf(a[0])
		if t, ok := a[1].(*Term); ok && t.IsConst() && nh.shards[t.K] == nil {
			for i, r := range nh.infoShards {
				if r == t.K {
					nh.infoShards = append(nh.infoShards[:i:i], nh.infoShards[i+1:]...)
					nh.stoppedIDs = append(nh.stoppedIDs, t.K)
					return Iface{}
				}
			}
		}
		if sh := p.nhShard(nh, a[1]); sh != nil {
			sh.stopped = true
			nh.stoppedIDs = append(nh.stoppedIDs, sh.id)
			return Iface{}
		}
		return p.sentinelError(dbPkg + ".ErrShardNotFound")
	})
	// metrics are off in the model (EnableMetrics false)
	reg(N+"NodeHostConfig", func(p *Path, _ *frame, a []Value) Value {
		return p.zero(p.eng.namedType("github.com/lni/dragonboat/v4/config", "NodeHostConfig"))
	})
	reg(N+"GetLeaderID", func(p *Path, _ *frame, a []Value) Value {
		return Tuple{p.ctx.BV(1, 64), p.ctx.BV(1, 64), p.ctx.T, Iface{}}
	})
}
