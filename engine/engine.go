package main

import (
	"fmt"
	"go/types"
	"os"
	"path/filepath"
	"runtime/debug"
	"sort"
	"strings"
	"sync"
	"sync/atomic"
	"time"

	"golang.org/x/tools/go/packages"
	"golang.org/x/tools/go/ssa"
	"golang.org/x/tools/go/ssa/ssautil"
)

const repoDir = "/repo"
const regattaMod = "github.com/jamf/regatta"

type Engine struct {
	prog            *ssa.Program
	pkgs            []*packages.Package
	errorStringPtrT types.Type
	errorIface      *types.Interface
	rtErrT          types.Type
	maxDepth        int
	maxSteps        int
	maxFan          int
	maxDecisions    int
	allow           map[string]bool
	allowCache      sync.Map
	loadTime        time.Duration
	verifDir        string
	overlay         map[string][]byte
	harnessFiles    []string
	timeoutMs       int
	solverKind      SolverKind
	workers         int
	verbose         bool
}

// packages outside the module whose Go source is interpreted as is
var interpretedPkgs = []string{
	"bytes", "strings", "sort", "slices", "cmp", "errors", "path", "unicode", "unicode/utf8",
	"encoding/binary", "io", "bufio", "math", "math/bits", "strconv", "sync/atomic", "container/heap",
	"container/list", "iter", "maps", "internal/itoa", "internal/stringslite", "time",
	"github.com/oxtoacart/bpool",
	"github.com/grpc-ecosystem/go-grpc-middleware/v2/interceptors/auth",
	"github.com/grpc-ecosystem/go-grpc-middleware/v2",
	"github.com/grpc-ecosystem/go-grpc-middleware/v2/metadata",
	"internal/byteorder", "path/filepath", "internal/filepathlite", "hash/crc32", "encoding/hex", "internal/godebug",
	"github.com/lni/dragonboat/v4/raftpb",
	"github.com/planetscale/vtprotobuf/protohelpers",
	"google.golang.org/protobuf/encoding/protowire",
}

func (e *Engine) allowedPkg(path string) bool {
	if v, ok := e.allowCache.Load(path); ok {
		return v.(bool)
	}
	ok := path == regattaMod || strings.HasPrefix(path, regattaMod+"/") || e.allow[path]
	e.allowCache.Store(path, ok)
	return ok
}

// harnessOverlay maps /verif/harness/<rel> to /repo/<rel>.
func harnessOverlay(verifDir string, symbolic bool) (map[string][]byte, []string, error) {
	ov := map[string][]byte{}
	var files []string
	root := filepath.Join(verifDir, "harness")
	err := filepath.Walk(root, func(path string, info os.FileInfo, err error) error {
		if err != nil {
			return err
		}
		if info.IsDir() || !strings.HasSuffix(path, ".go") {
			return nil
		}
		rel, _ := filepath.Rel(root, path)
		b, err := os.ReadFile(path)
		if err != nil {
			return err
		}
		ov[filepath.Join(repoDir, rel)] = b
		files = append(files, rel)
		return nil
	})
	sort.Strings(files)
	return ov, files, err
}

func NewEngine(verifDir string, patterns []string) (*Engine, error) {
	e := &Engine{maxDepth: 400, maxSteps: 50_000_000, maxFan: 64, maxDecisions: 4000, allow: map[string]bool{}, verifDir: verifDir}
	for _, p := range interpretedPkgs {
		e.allow[p] = true
	}
	t0 := time.Now()
	ov, files, err := harnessOverlay(verifDir, true)
	if err != nil {
		return nil, err
	}
	e.overlay, e.harnessFiles = ov, files
	cfg := &packages.Config{
		Mode:       packages.LoadAllSyntax,
		Dir:        repoDir,
		BuildFlags: []string{"-tags=verif,symgo"},
		Overlay:    ov,
		Env:        append(os.Environ(), "GOFLAGS=-mod=mod", "GOPROXY=off", "GOSUMDB=off", "GOTOOLCHAIN=local"),
	}
	pkgs, err := packages.Load(cfg, patterns...)
	if err != nil {
		return nil, err
	}
	nerr := 0
	packages.Visit(pkgs, nil, func(p *packages.Package) {
		for _, er := range p.Errors {
			if strings.HasPrefix(p.PkgPath, regattaMod) {
				fmt.Fprintf(os.Stderr, "load error in %s: %v\n", p.PkgPath, er)
				nerr++
			}
		}
	})
	if nerr > 0 {
		return nil, fmt.Errorf("%d load errors in regatta packages (does /repo compile?)", nerr)
	}
	prog, initial := ssautil.AllPackages(pkgs, ssa.InstantiateGenerics)
	for _, ip := range initial {
		if ip != nil {
			ip.Build()
		}
	}
	e.prog, e.pkgs = prog, pkgs
	// all regatta packages get built eagerly (cheap); dependencies on demand
	for _, pk := range prog.AllPackages() {
		if strings.HasPrefix(pk.Pkg.Path(), regattaMod) {
			pk.Build()
		}
	}
	for _, path := range interpretedPkgs {
		if pk := prog.ImportedPackage(path); pk != nil {
			pk.Build()
		}
	}
	errorsPkg := prog.ImportedPackage("errors")
	if errorsPkg == nil {
		return nil, fmt.Errorf("package errors not loaded")
	}
	errorsPkg.Build()
	e.errorStringPtrT = types.NewPointer(errorsPkg.Type("errorString").Type())
	e.errorIface = types.Universe.Lookup("error").Type().Underlying().(*types.Interface)
	rt := prog.ImportedPackage("runtime")
	if rt == nil {
		return nil, fmt.Errorf("package runtime not loaded")
	}
	e.rtErrT = rt.Type("errorString").Type()
	e.loadTime = time.Since(t0)
	return e, nil
}

// findFunc locates a package-level function "pkgpath.Name".
func (e *Engine) findFunc(pkgPath, name string) *ssa.Function {
	pk := e.prog.ImportedPackage(pkgPath)
	if pk == nil {
		return nil
	}
	return pk.Func(name)
}

// lookupMethod finds an exported method by name in the method set of t (nil if absent).
func (e *Engine) lookupMethod(t types.Type, name string) *ssa.Function {
	ms := e.prog.MethodSets.MethodSet(t)
	for i := 0; i < ms.Len(); i++ {
		if ms.At(i).Obj().Name() == name {
			return e.prog.MethodValue(ms.At(i))
		}
	}
	return nil
}

// namedType returns the named type pkg.Name.
func (e *Engine) namedType(pkgPath, name string) types.Type {
	pk := e.prog.ImportedPackage(pkgPath)
	if pk == nil {
		panic(unsupported{"package not loaded: " + pkgPath})
	}
	m := pk.Type(name)
	if m == nil {
		panic(unsupported{"type not found: " + pkgPath + "." + name})
	}
	return m.Type()
}

// globalModel gives values to selected globals of uninterpreted packages.
func (e *Engine) globalModel(p *Path, full string, t types.Type) (Value, bool) {
	if f, ok := globalModels[full]; ok {
		return f(p, t), true
	}
	return nil, false
}

var globalModels = map[string]func(p *Path, t types.Type) Value{}

// ---------------------------------------------------------------- running

type Instance struct {
	Prop    string
	Pkg     string // package path suffix under the module, e.g. "storage/cluster"
	Func    string
	Args    []int64
	Unwind  int
	Expect  string // "" = must pass; "violated" = vacuity twin, must be violated
	MaxPath int
	// EngineOnly: the harness exercises something that has no native twin
	// (e.g. an anonymous closure executed with opaque captured variables);
	// its violations are reported without native confirmation.
	EngineOnly bool
	// NoWitness: passing paths of this instance are not replayed natively by the
	// translation self-check (their course depends on scheduling or on the clock,
	// which the native run does not take from the replay file).
	NoWitness   bool
	witnessLeft int32 // how many more completed paths should carry a witness (atomic)
}

func (in *Instance) Name() string {
	s := in.Func
	if len(in.Args) > 0 {
		s += fmt.Sprint(in.Args)
	}
	return s
}

type InstanceResult struct {
	Inst         *Instance
	Paths        int
	Completed    int
	AssumedAway  int
	Panicked     int
	Asserts      int
	Trivial      int
	Discharged   int
	Violations   []*Violation
	Inconclusive []string
	Covers       map[string]bool
	Funcs        map[*ssa.Function]bool
	Decisions    int
	Steps        int64
	FeasUnknown  int
	Samples      []map[string]interface{}
	Witnesses    []*WitnessPath
	Wall         time.Duration
	mu           sync.Mutex
	pending      int
}

// WitnessPath: a completed (passing) path with a concrete assignment of its
// inputs, for the native self-check of the translation.
type WitnessPath struct {
	Decisions []Decision
	Syms      []SymRecord
	Covers    []string
	Asserts   int
}

type workItem struct {
	ir     *InstanceResult
	prefix []Decision
}

type RunStats struct {
	Queries   int
	Sat       int
	Unsat     int
	Unknown   int
	SolveTime time.Duration
}

// RunInstances explores all instances with a shared pool of workers.
func (e *Engine) RunInstances(insts []*Instance) ([]*InstanceResult, RunStats) {
	results := make([]*InstanceResult, len(insts))
	var mu sync.Mutex
	cond := sync.NewCond(&mu)
	var stack []workItem
	busy := 0
	for i, in := range insts {
		results[i] = &InstanceResult{Inst: in, Covers: map[string]bool{}, Funcs: map[*ssa.Function]bool{}, pending: 1}
		stack = append(stack, workItem{results[i], nil})
	}
	// reverse so that instance 0 is explored first
	for i, j := 0, len(stack)-1; i < j; i, j = i+1, j-1 {
		stack[i], stack[j] = stack[j], stack[i]
	}
	var stats RunStats
	var wg sync.WaitGroup
	start := time.Now()
	stopProgress := make(chan struct{})
	if e.verbose {
		go func() {
			t := time.NewTicker(10 * time.Second)
			defer t.Stop()
			for {
				select {
				case <-stopProgress:
					return
				case <-t.C:
					mu.Lock()
					done, viol := 0, 0
					for _, r := range results {
						done += r.Paths
						viol += len(r.Violations)
					}
					fmt.Fprintf(os.Stderr, "  … %.0fs: %d paths done, %d queued, %d busy, %d violations so far\n", time.Since(start).Seconds(), done, len(stack), busy, viol)
					mu.Unlock()
				}
			}
		}()
	}
	for w := 0; w < e.workers; w++ {
		wg.Add(1)
		go func() {
			defer wg.Done()
			sol, err := NewSolver(e.solverKind, e.timeoutMs)
			if err != nil {
				fmt.Fprintln(os.Stderr, "cannot start solver:", err)
				os.Exit(2)
			}
			defer func() {
				mu.Lock()
				stats.Queries += sol.Queries
				stats.Sat += sol.Sat
				stats.Unsat += sol.Unsat
				stats.Unknown += sol.Unknown
				stats.SolveTime += sol.SolveTime
				mu.Unlock()
				sol.Close()
			}()
			for {
				mu.Lock()
				for len(stack) == 0 && busy > 0 {
					cond.Wait()
				}
				if len(stack) == 0 {
					mu.Unlock()
					cond.Broadcast()
					return
				}
				it := stack[len(stack)-1]
				stack = stack[:len(stack)-1]
				busy++
				mu.Unlock()

				pr := e.runPath(sol, it.ir.Inst, it.prefix)

				mu.Lock()
				ir := it.ir
				ir.Paths++
				maxp := ir.Inst.MaxPath
				if maxp == 0 {
					maxp = 200000
				}
				if ir.Paths+len(stack) > maxp && len(pr.NewPrefixes) > 0 {
					ir.Inconclusive = append(ir.Inconclusive, fmt.Sprintf("path budget %d exceeded", maxp))
					pr.NewPrefixes = nil
				}
				for _, np := range pr.NewPrefixes {
					stack = append(stack, workItem{ir, np})
				}
				e.merge(ir, pr)
				ir.Wall = time.Since(start)
				busy--
				mu.Unlock()
				cond.Broadcast()
			}
		}()
	}
	wg.Wait()
	close(stopProgress)
	return results, stats
}

func (e *Engine) merge(ir *InstanceResult, pr *PathResult) {
	ir.Asserts += pr.Asserts
	ir.Trivial += pr.Trivial
	ir.Discharged += pr.Discharged
	ir.Decisions += len(pr.Decisions)
	ir.Steps += int64(pr.Steps)
	ir.FeasUnknown += pr.FeasUnknown
	for k := range pr.Covers {
		ir.Covers[k] = true
	}
	for f := range pr.Funcs {
		ir.Funcs[f] = true
	}
	ir.Violations = append(ir.Violations, pr.Violations...)
	if pr.WitnessSyms != nil {
		w := &WitnessPath{Decisions: pr.Decisions, Syms: pr.WitnessSyms, Asserts: pr.Asserts}
		for k := range pr.Covers {
			w.Covers = append(w.Covers, k)
		}
		sort.Strings(w.Covers)
		ir.Witnesses = append(ir.Witnesses, w)
	}
	for _, s := range pr.Inconclusive {
		if len(ir.Inconclusive) < 50 {
			ir.Inconclusive = append(ir.Inconclusive, s)
		}
	}
	switch {
	case pr.Ended == "":
		ir.Completed++
	case pr.Ended == "assume":
		ir.AssumedAway++
	case strings.HasPrefix(pr.Ended, "panic"):
		ir.Panicked++
	}
	if len(ir.Samples) < 3 && pr.Ended == "" {
		s := map[string]interface{}{
			"instance":  ir.Inst.Name(),
			"decisions": decisionsString(pr.Decisions),
			"asserts":   pr.Asserts,
		}
		if pr.Witness != nil {
			w := map[string]uint64{}
			n := 0
			var names []string
			for k := range pr.Witness {
				names = append(names, k)
			}
			sort.Strings(names)
			for _, k := range names {
				if n >= 12 {
					break
				}
				w[k] = pr.Witness[k]
				n++
			}
			s["witness_of_path_condition"] = w
		}
		if len(pr.Notes) > 0 {
			s["notes"] = pr.Notes
		}
		ir.Samples = append(ir.Samples, s)
	}
}

// runPath executes one path.
func (e *Engine) runPath(sol *Solver, in *Instance, prefix []Decision) (res *PathResult) {
	res = &PathResult{Covers: map[string]bool{}, Funcs: map[*ssa.Function]bool{}}
	ctx := NewTermCtx()
	sol.Reset(ctx)
	p := &Path{
		eng: e, ctx: ctx, sol: sol, prefix: prefix, res: res,
		globals: map[*ssa.Global]*Value{}, symCnt: map[string]int{}, binds: map[string]Value{},
		pools: map[*Value][]Value{}, errs: map[string]Value{}, objs: map[string]interface{}{},
		unwind: in.Unwind, model: Model{}, rtErrT: e.rtErrT,
	}
	if p.unwind == 0 {
		p.unwind = 64
	}
	p.initSched()
	defer func() {
		r := recover()
		p.killAll()
		res.Decisions = p.decs
		res.Steps = p.steps
		res.Notes = p.notes
		if p.model != nil && len(p.model) > 0 {
			res.Witness = p.model
		}
		switch x := r.(type) {
		case nil:
		case pathEnd:
			res.Ended = "assume"
		case targetPanic:
			res.Ended = "panic: " + panicString(x.v)
			res.PanicTop = panicString(x.v)
			res.Inconclusive = append(res.Inconclusive, "uncaught panic reached the harness top: "+panicString(x.v)+" ["+decisionsString(p.decs)+"]")
		case deadlock:
			res.Ended = "deadlock"
			if p.deadlockLabel != "" {
				// "waiting never wedges": every goroutine blocked is a violation of the harness' liveness assertion
				p.note("deadlock: %s", x.msg)
				func() {
					defer func() { recover() }()
					p.check(p.ctx.F, p.deadlockLabel, "deadlock")
				}()
			} else {
				res.Inconclusive = append(res.Inconclusive, "deadlock outside verif.NoDeadlock scope: "+x.msg)
			}
		case unsupported:
			res.Ended = "unsupported"
			res.Inconclusive = append(res.Inconclusive, "UNSUPPORTED: "+x.msg)
		case unwindFailure:
			res.Ended = "unwind"
			res.Inconclusive = append(res.Inconclusive, "UNWIND: "+x.where)
		case engineError:
			res.Ended = "engine"
			res.Inconclusive = append(res.Inconclusive, "ENGINE ERROR: "+x.msg)
		default:
			res.Ended = "engine"
			res.Inconclusive = append(res.Inconclusive, fmt.Sprintf("ENGINE CRASH: %v\n%s", r, debug.Stack()))
		}
	}()
	fn := e.findFunc(regattaMod+"/"+in.Pkg, in.Func)
	if in.Pkg == "" {
		fn = e.findFunc(regattaMod, in.Func)
	}
	if fn == nil {
		panic(engineError{"harness function not found: " + in.Pkg + "." + in.Func})
	}
	args := make([]Value, len(in.Args))
	for i, a := range in.Args {
		args[i] = ctx.BV(uint64(a), 64)
	}
	p.callSSA(nil, fn, args, nil)
	p.ensureFeasible()
	if p.di < len(p.prefix) {
		panic(engineError{"path finished before consuming its decision prefix"})
	}
	if len(res.Violations) == 0 && len(res.Inconclusive) == 0 && atomic.AddInt32(&in.witnessLeft, -1) >= 0 {
		// translation self-check: a concrete assignment of this passing path's inputs
		if r, m := p.sol.Check(nil, true); r == ResSat {
			res.WitnessSyms = []SymRecord{}
			for _, s := range p.syms {
				s2 := SymRecord{Name: s.Name, Kind: s.Kind}
				memo := map[int]uint64{}
				for _, t := range s.Terms {
					x, _ := p.ctx.Eval(t, m, memo)
					s2.Vals = append(s2.Vals, x)
				}
				res.WitnessSyms = append(res.WitnessSyms, s2)
			}
		}
	}
	return res
}
