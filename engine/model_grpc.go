package main

// M5 (rest): bearer tokens in request metadata, viper configuration values,
// and access to the service-registration closures of cmd.leader / cmd.follower.

import (
	"fmt"
	"go/token"
	"go/types"
	"strings"

	"golang.org/x/tools/go/ssa"
)

const (
	authPkg  = "github.com/grpc-ecosystem/go-grpc-middleware/v2/interceptors/auth"
	viperPkg = "github.com/spf13/viper"
)

type bearer struct {
	token   Value
	present bool
	raw     bool // token holds the whole header value
}

func init() {
	reg(verifPkg+".CtxWithBearer", func(p *Path, _ *frame, a []Value) Value {
		cv := p.newCtx(nil, true, false)
		c := p.ctxOf(cv)
		p.objs[fmt.Sprintf("bearer:%p", c)] = &bearer{token: a[0], present: p.branch(p.boolArg(a[1]))}
		return cv
	})
	// CtxWithAuthHeader(header, present): the incoming context carries (or not) one
	// "authorization" metadata value; everything above grpc/metadata — the
	// middleware's MD wrapper, auth.AuthFromMD's scheme parsing, regatta's
	// authFunc — is interpreted from source.
	reg(verifPkg+".CtxWithAuthHeader", func(p *Path, _ *frame, a []Value) Value {
		cv := p.newCtx(nil, true, false)
		c := p.ctxOf(cv)
		p.objs[fmt.Sprintf("bearer:%p", c)] = &bearer{token: a[0], present: p.branch(p.boolArg(a[1])), raw: true}
		return cv
	})
	mdType := func(p *Path) (types.Type, types.Type) {
		return types.Typ[types.String], types.NewSlice(types.Typ[types.String])
	}
	reg("google.golang.org/grpc/metadata.FromIncomingContext", func(p *Path, _ *frame, a []Value) Value {
		c := p.ctxOf(a[0])
		for x := c; x != nil; x = x.parent {
			if b, ok := p.objs[fmt.Sprintf("bearer:%p", x)]; ok {
				bb := b.(*bearer)
				if !bb.present {
					break
				}
				kt, vt := mdType(p)
				hv := bb.token
				if !bb.raw {
					hv = p.binop(token.ADD, types.Typ[types.String], types.Typ[types.String], "bearer ", bb.token)
				}
				return Tuple{&Map{K: []Value{"authorization"}, V: []Value{[]Value{hv}}, KT: kt, VT: vt}, p.ctx.T}
			}
		}
		return Tuple{(*Map)(nil), p.ctx.F}
	})
	reg("google.golang.org/grpc/metadata.Pairs", func(p *Path, _ *frame, a []Value) Value {
		kv, _ := a[0].([]Value)
		if len(kv) != 0 {
			panic(unsupported{"metadata.Pairs with arguments"})
		}
		kt, vt := mdType(p)
		return &Map{KT: kt, VT: vt}
	})
	reg(verifPkg+".SetConfig", func(p *Path, _ *frame, a []Value) Value {
		k, _ := p.concreteString(a[0])
		p.objs["viper:"+k] = a[1]
		return nil
	})
	reg(viperPkg+".GetString", func(p *Path, _ *frame, a []Value) Value {
		k, _ := p.concreteString(a[0])
		if v, ok := p.objs["viper:"+k]; ok {
			return v.(Value)
		}
		return ""
	})
	reg(viperPkg+".GetBool", func(p *Path, _ *frame, a []Value) Value {
		k, _ := p.concreteString(a[0])
		if v, ok := p.objs["viper:"+k]; ok {
			s, _ := p.concreteString(v.(Value))
			return p.ctx.Bool(s == "true")
		}
		return p.ctx.F
	})
	// call options are opaque to the harness-provided clients
	reg("google.golang.org/grpc.WaitForReady", func(p *Path, _ *frame, a []Value) Value {
		return Iface{T: types.NewPointer(types.NewStruct(nil, nil)), V: &NativeObj{Kind: "noop"}}
	})
	reg(viperPkg+".GetUint64", func(p *Path, _ *frame, a []Value) Value { return p.ctx.BV(0, 64) })
	// RegistrationClosure(fn, idx): the idx-th anonymous function of cmd.<fn>
	// with signature func(grpc.ServiceRegistrar), with opaque free variables.
	reg(verifPkg+".RegistrationClosure", func(p *Path, _ *frame, a []Value) Value {
		name, _ := p.concreteString(a[0])
		idx := int(p.concreteInt(a[1], "closure index"))
		parent := p.eng.findFunc(regattaMod+"/cmd", name)
		if parent == nil {
			panic(unsupported{"cmd." + name + " not found"})
		}
		var found []*ssa.Function
		var walk func(f *ssa.Function)
		walk = func(f *ssa.Function) {
			for _, af := range f.AnonFuncs {
				sig := af.Signature
				if sig.Params().Len() == 1 && sig.Results().Len() == 0 && strings.HasSuffix(sig.Params().At(0).Type().String(), "grpc.ServiceRegistrar") {
					found = append(found, af)
				}
				walk(af)
			}
		}
		walk(parent)
		if idx >= len(found) {
			panic(unsupported{fmt.Sprintf("cmd.%s has %d registration closures, want #%d", name, len(found), idx)})
		}
		fn := found[idx]
		env := make([]Value, len(fn.FreeVars))
		for i, fv := range fn.FreeVars {
			// free variables are captured by reference: a cell holding an opaque value of the variable's type
			cell := new(Value)
			et := fv.Type().(*types.Pointer).Elem()
			*cell = p.opaqueOf(et, fv.Name())
			env[i] = cell
		}
		return &Closure{Fn: fn, Env: env}
	})
}

// opaqueOf builds a placeholder of type t: nil for pointers and interfaces
// would make registration code trip over nil checks, so pointers get an
// identity-only object.
func (p *Path) opaqueOf(t types.Type, name string) Value {
	switch t.Underlying().(type) {
	case *types.Pointer:
		return &NativeObj{Kind: "opaque:" + name, T: t}
	case *types.Interface:
		return Iface{T: types.NewPointer(types.NewStruct(nil, nil)), V: &NativeObj{Kind: "opaque:" + name}}
	}
	return p.zero(t)
}
