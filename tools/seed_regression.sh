#!/bin/sh
# usage: tools/seed_regression.sh [ids...] — apply every stored seed to /repo, run the check of the property it breaks, undo; one line each
cd /verif
IDS="$*"; [ -z "$IDS" ] && IDS=$(ls seeded | grep -v REGRESSION)
for s in $IDS; do
  prop=$(python3 -c "
import json,re,sys
m=json.load(open('seeded/$s/meta.json'))
c=m.get('caught_by','')
p=re.findall(r'C\d\d', m['property'])
# a seed filed under one property but checked under another names it in caught_by
q=re.findall(r'VH_(C\d\d)_', c)
print((q or p)[0])")
  git -C /repo diff --quiet || { echo "$s: /repo dirty, stop"; exit 3; }
  P=/verif/seeded/$s/patch.diff; [ -f /verif/seeded/$s/patch_rebased.diff ] && P=/verif/seeded/$s/patch_rebased.diff; git -C /repo apply $P || { echo "$s: patch does not apply"; continue; }
  st=$(date +%s)
  ./check $prop quick > /tmp/seedreg_$s.out 2>&1; rc=$?
  e=$(date +%s)
  git -C /repo checkout -- .
  echo "$s -> $prop exit=$rc wall=$((e-st))s $(grep -c '^VIOLATION' /tmp/seedreg_$s.out) violation lines; $(grep -m1 'violated:' /tmp/seedreg_$s.out | cut -c1-150)"
done
