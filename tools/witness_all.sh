#!/bin/sh
# usage: tools/witness_all.sh [n] [ids...] — quick bounds plus native replay of n passing paths per instance
N="${1:-2}"; shift
cd /verif
IDS="$*"; [ -z "$IDS" ] && IDS=$(python3 -c "import json;print(' '.join(c['property_id'] for c in json.load(open('MANIFEST.json'))['checks']))")
for id in $IDS; do
  s=$(date +%s)
  ./check $id quick --witness $N > /tmp/witness_$id.out 2>&1; rc=$?
  e=$(date +%s)
  echo "$id exit=$rc wall=$((e-s))s $(grep 'translation self-check' /tmp/witness_$id.out) ; $(grep -c TRANSLATION-MISMATCH /tmp/witness_$id.out) mismatches"
done
