#!/bin/sh
# usage: tools/time_thorough.sh <limit seconds> ids... — run thorough tiers under a wall-clock limit, one line each
LIM="$1"; shift
cd /verif
for id in "$@"; do
  s=$(date +%s)
  timeout "$LIM" ./check $id thorough > /tmp/thorough_$id.out 2>&1; rc=$?
  e=$(date +%s)
  echo "$id thorough exit=$rc wall=$((e-s))s $(grep -c '^VIOLATION' /tmp/thorough_$id.out) violations, $(grep -c '^INCONCLUSIVE' /tmp/thorough_$id.out) inconclusive; $(grep 'translation self-check' /tmp/thorough_$id.out)"
  pkill -x symgo 2>/dev/null
done
