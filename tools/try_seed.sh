#!/bin/sh
# usage: tools/try_seed.sh <patch.diff> <property> [tier] — apply a seeded change to /repo, run the check, undo it.
P="$1"; ID="$2"; TIER="${3:-quick}"
cd /verif
git -C /repo diff --quiet || { echo "/repo has local changes; refusing"; exit 3; }
git -C /repo apply "$P" || exit 3
./check "$ID" "$TIER" > /tmp/try_seed_$ID.out 2>&1
rc=$?
git -C /repo checkout -- . 
git -C /repo status --short | grep -v '^??' 
echo "check $ID $TIER on seeded tree: exit $rc"
grep "VIOLATION\|violated:\|INCONCLUSIVE" /tmp/try_seed_$ID.out | head -8 | cut -c1-300
exit 0
