#!/bin/sh
# Compile every harness package natively (tag verif, no symgo) through the overlay: catches harness code that only type-checks in the engine build.
export GOFLAGS=-mod=mod GOPROXY=off GOSUMDB=off GOTOOLCHAIN=local
V="$(cd "$(dirname "$0")/.." && pwd)"
T=$(mktemp -d)
python3 - "$V" "$T" <<'PY'
import os,sys,json
v,t=sys.argv[1],sys.argv[2]
ov={}
for root,_,files in os.walk(os.path.join(v,'harness')):
    for f in files:
        if f.endswith('.go'):
            full=os.path.join(root,f)
            rel=os.path.relpath(full,os.path.join(v,'harness'))
            ov[os.path.join('/repo',rel)]=full
json.dump({"Replace":ov},open(os.path.join(t,'ov.json'),'w'))
pk=sorted({'./'+os.path.dirname(os.path.relpath(k,'/repo')) for k in ov})
open(os.path.join(t,'pkgs'),'w').write(' '.join(pk))
PY
cd /repo && go build -tags verif -overlay "$T/ov.json" $(cat "$T/pkgs") 2>&1 | grep -v "^#" | head -30
rc=$?
rm -rf "$T"
exit 0
