#!/bin/sh
# usage: tools/run_all.sh [tier] [ids...] — run every registered check, one line per property
TIER="${1:-quick}"; shift
cd /verif
IDS="$*"; [ -z "$IDS" ] && IDS=$(python3 -c "import json;print(' '.join(c['property_id'] for c in json.load(open('MANIFEST.json'))['checks']))")
for id in $IDS; do
  s=$(date +%s)
  ./check $id $TIER > /tmp/run_all_$id.$TIER.out 2>&1; rc=$?
  e=$(date +%s)
  echo "$id $TIER exit=$rc wall=$((e-s))s $(grep -c '^VIOLATION' /tmp/run_all_$id.$TIER.out) violations, $(grep -c '^INCONCLUSIVE' /tmp/run_all_$id.$TIER.out) inconclusive"
done
