#!/bin/bash
# verify a seed in its worktree: demo fails with change, passes without; existing tests pass with change
export GOFLAGS=-mod=mod GOPROXY=off GOSUMDB=off GOTOOLCHAIN=local
ID=$1; W=/tmp/seed/$ID; cd $W || exit 1
demos=$(git status --short | grep '^??' | awk '{print $2}' | grep '_test.go$')
pkgs=$(for d in $demos; do echo ./$(dirname $d); done | sort -u | tr '\n' ' ')
echo "demo files: $demos ; packages: $pkgs"
echo "--- with change: demo"; go test -vet=off -count=1 -run 'Demo|Seed|C[0-9][0-9]' $pkgs 2>&1 | grep -v '^{"level' | grep -E "^(ok|FAIL|---)" | head -12
git stash -q
echo "--- without change: demo"; go test -vet=off -count=1 -run 'Demo|Seed|C[0-9][0-9]' $pkgs 2>&1 | grep -v '^{"level' | grep -E "^(ok|FAIL|---)" | head -12
git stash pop -q
mkdir -p /tmp/seed/${ID}_demos; for d in $demos; do mkdir -p /tmp/seed/${ID}_demos/$(dirname $d); mv $d /tmp/seed/${ID}_demos/$d; done
echo "--- with change: existing suite"; go build ./... && go test -vet=off -count=1 -timeout 25m ./... 2>&1 | grep -v '^{"level' | grep -E "^(FAIL|---|ok)" | grep -v "^ok" | head
for d in $demos; do mv /tmp/seed/${ID}_demos/$d $d; done
echo "--- done $ID"
