#!/bin/sh
# Build the engine and warm the Go build/type-check caches (offline).
export GOFLAGS=-mod=mod GOPROXY=off GOSUMDB=off GOTOOLCHAIN=local
VERIF_DIR="$(cd "$(dirname "$0")" && pwd)"
mkdir -p "$VERIF_DIR/bin" "$VERIF_DIR/evidence"
( cd "$VERIF_DIR/engine" && go build -o "$VERIF_DIR/bin/symgo" . ) || exit 1
VERIF_DIR="$VERIF_DIR" "$VERIF_DIR/bin/symgo" warm || exit 1
